"""Which engines decide which property. Shared by ./check and tools/gen_manifest.py."""

ALL_DRIVERS = ["arith"]

COMMON_ASSUMPTIONS = [
    "the reference models (exact integer arithmetic on 384-bit integers, IEEE-754 decode/encode by integer manipulation, exact decimal rationals) are correct; they are self-tested against native arithmetic on exhaustive 8-bit domains",
    "rustc/LLVM compile the subject for this harness as they do for users (same crate sources from /repo's working tree, opt-level 2, two profiles: release and release+debug-assertions+overflow-checks)",
    "for widths >= 32 bits (and 16-bit binary operations in the quick tier) the exploration is exhaustive over the stated boundary alphabets, not over all 2^w values",
]

ARITH_RULE = ("all 506 layouts; operands: every value of the 8-bit layouts (all 65536 pairs), every value of the 16-bit layouts for unary "
              "operations, boundary alphabet B(w, frac) (powers of two and neighbours, limb/carry combinations, layout-relative values, "
              "extremes; full square BxB for binary operations) otherwise; every form the API provides incl. by-reference and assigning "
              "operators; a state is one (layout, operand tuple), a transition one executed call compared with exact integer arithmetic; "
              "non-trivial = at least one non-zero operand and at least one judged comparison")

PROPS = {
    "C01": {
        "title": "products and quotients exactly rounded",
        "stages": [{"driver": "arith"}],
        "rule": ARITH_RULE,
        "assumptions": ["judged only where the exact result is representable (the property's 'whenever')"],
    },
    "C02": {
        "title": "checked/saturating/wrapping/overflowing agree on one exact result",
        "stages": [{"driver": "arith"}],
        "rule": ARITH_RULE,
    },
    "C06": {
        "title": "rounding operations",
        "stages": [{"driver": "arith"}],
        "rule": ARITH_RULE,
    },
    "C07": {
        "title": "remainders and Euclidean division",
        "stages": [{"driver": "arith"}],
        "rule": ARITH_RULE,
    },
}

DRIVER_KIND = {
    "arith": "Rust; explicit enumeration of same-type unary/binary operations of all 506 layouts against exact integer arithmetic",
}
