"""Which engines decide which property. Shared by ./check and tools/gen_manifest.py."""

ALL_DRIVERS = ["arith", "cross", "crossx", "prim", "primx", "text", "bytes", "wrap", "trans", "transx"]

# drivers that switch on optional features of the subject (built in a separate cargo invocation)
FEATURE_GROUP = {"bytes": "serde"}

COMMON_ASSUMPTIONS = [
    "the reference models (exact integer arithmetic on 384-bit integers, IEEE-754 decode/encode by integer manipulation, exact decimal rationals) are correct; they are self-tested against native arithmetic on exhaustive 8-bit domains",
    "rustc/LLVM compile the subject for this harness as they do for users (same crate sources from /repo's working tree, opt-level 2, two profiles: release and release+debug-assertions+overflow-checks)",
    "for widths >= 32 bits (and 16-bit binary operations in the quick tier) the exploration is exhaustive over the stated boundary alphabets, not over all 2^w values",
]

ARITH_RULE = ("all 506 layouts; operands: every value of the 8-bit layouts (all 65536 pairs), every value of the 16-bit layouts for unary "
              "operations, boundary alphabet B(w, frac) (powers of two and neighbours, limb/carry combinations, layout-relative values, "
              "extremes; full square BxB for binary operations, plus related pairs (k*y + {-1,0,1}, y) in both orders for 12 factors k, plus, for unary operations, ties at every integer part of the alphabet; for 128-bit layouts pairs constructed from intermediate values (cross-product sums next to a multiple of 2^128, squares, quotients with half-digits at the top of their range over divisors with low half > high half); quick tier: also powers of two at every exponent with essential partners and with the partners that put the product / quotient on the overflow / underflow boundary) otherwise; every form the API provides incl. by-reference and assigning "
              "operators, integer-on-the-left products, the inherent bodies of the deprecated rem_int forms, Sum / Product of sequences of at most two elements, the limits and layout constants of each type (C02); the plain forms are judged where the exact result is representable; a state is one (layout, operand tuple), a transition one executed call compared with exact integer arithmetic; "
              "non-trivial = at least one non-zero operand and at least one judged comparison")

CROSS_RULE = ("ordered (source, destination) layout pairs through the public API: all 18x18 pairs of 8-bit layouts with every source value "
              "/ every value pair, and for each of the 100 ordered family pairs the boundary fractional-bit products (5x5 quick, 9x9 plus "
              "all 8<->16-bit pairs thorough) with every value of 8/16-bit sources and the boundary alphabet otherwise, plus relation-diagonal pairs through mid-range fractional-bit counts (equal fractional bits, equal integer bits, source integer + destination fractional bits = 128, 64 apart; each +-1); comparisons also on related pairs (the other layout's representation of the same number and its neighbours); ")
PRIM_RULE = ("every compiled layout (90 quick: all 8-bit layouts + boundary fractional-bit counts; all 506 thorough) against i8..i128, "
             "isize, u8..u128, usize, bool, f32, f64 in both directions and both operand orders; integer values: all of 8/16-bit, "
             "boundary alphabet otherwise; floats: every exponent (f32; f64 thorough, quick: +-140 around the bias and the extremes) x "
             "structured mantissas x both signs, incl. zeros, subnormals, largest finite binade, infinities, NaNs; comparisons also against the floor of the value +-1 (integers) and the nearest float +-1, +-2 ulp; float -> fixed conversions also on floats related to the layout ((4v + q)/4 ulp for q = -3..3 around the extremes, 0, 1 and every ninth boundary value, with their float neighbours); From / LossyFrom existence and value for every one of the 506 layouts also in the quick tier (probe-only table, with float conversions and comparisons on thin sets), LossyFrom between primitives; ")

TRANS_RULE = """type pairs S->D: I9F23, I9F55, I16F48, I32F32, I41F23, I9F119, I40F88, I64F64, I96F32, I105F23 onto themselves, I9F23->{I32F32, I64F64, I9F55, I10F54, I96F32}, I32F32->I64F64, I16F48->I40F88, and for sqrt U9F23, U9F55, U32F32, U9F119, U64F64, U96F32, U105F23, U9F23->U64F64, U32F32->U96F32; operands: boundary alphabet, integers 0..300 and halves, neighbourhoods of 1 and 2, 1 +- 2^-k for every k, (m/2)^2 +- {0, 1, 2, m-1, m, m+1, 2m, 3m-1, 3m, 10m} ulp for sqrt, dyadic-logarithm bases for pow, 2^e / k rounded both ways for k in {3, 5, ..., 17, 100}, the representable neighbours of 2^(k + j/8) in every octave (thorough j/32), a grid of 2^g values per octave over the whole range of the type (g = 5 quick / 9 thorough; 3 / 7 for 128-bit sources), both signs; thorough: every one of the 2^32 bit patterns of I9F23 and U9F23; second engine (transx): every other supported layout onto itself (all 64-bit types with 9..41 integer bits and all 128-bit types with 9..105 integer bits: 121 further signed pairs, 134 unsigned ones for sqrt), 57 widening pairs (I9F23 into every supported 64-bit layout and 12 128-bit ones; six 64-bit sources into the 128-bit layouts with equal fractional bits, equal integer bits and in between), 9 unsigned-to-signed pairs, with thinner operand sets in the quick tier (boundary alphabet, integers 0..20, neighbours of 2^(k + j/4), 2 grid values per octave; pow/powi on every 7th/11th of those plus the essential values) and the quick-tier sets above in the thorough tier; """
TRIG_RULE = ("types I9F23, I9F55, I16F48, I32F32, I41F23, I9F119, I40F88, I64F64, I96F32, I105F23 (second engine: the other 121 supported 64- and 128-bit layouts, quick tier with a 2^-2 grid and a reduced neighbourhood set); angles: every multiple of 2^-5 (thorough 2^-10) in [-200, 200] "
             "([-100, 100] for tan), boundary alphabet inside the range, the neighbourhood (0, +-1, +-2, +-100 ulp, +-2^-m for m = 1..24) of each multiple of pi/2 up "
             "to 130 pi/2; thorough: every I9F23 angle in the range (3.36e9 for sin and cos, 1.68e9 for tan); ")

PROPS = {
    "C11": {
        "title": "results do not depend on the build profile (debug assertions / overflow checks)",
        "stages": [
            {"driver": "arith", "digest_compare": True, "returned_pass": True},
            {"driver": "cross", "digest_compare": True, "returned_pass": True},
            {"driver": "prim", "digest_compare": True, "returned_pass": True},
            {"driver": "text", "digest_compare": True},
            {"driver": "bytes", "digest_compare": True},
            {"driver": "wrap", "digest_compare": True},
            {"driver": "trans", "digest_compare": True},
            {"driver": "transx", "digest_compare": True},
            {"driver": "crossx", "digest_compare": True, "returned_pass": True, "tiers": ["thorough"]},
            {"driver": "primx", "digest_compare": True, "returned_pass": True, "tiers": ["thorough"]},
        ],
        "rule": ("differential exploration: the union of the corpora of all other checks (same-type arithmetic of all 506 layouts, cross-type and primitive conversions and "
                 "comparisons, parsing and formatting, byte views, Wrapping, transcendental functions) is executed by the same engines built with and without debug "
                 "assertions + overflow checks. For every case in which the documentation permits no profile-dependent panic (decided by the reference model, hence "
                 "identically in both builds) the (input, outcome) stream is digested per block (layout x operation) and the digests must agree; a differing block is "
                 "dumped in both builds and the first differing case reported. For the permitted cases (operation without overflow handling whose exact result does not "
                 "fit, known div_euclid finding) every case in which the checking build nevertheless returned is re-executed in the non-checking build and must "
                 "return the identical value. A state is one (operation, operands) case, a transition one call in one build"),
        "assumptions": ["a panic of the checking build in a permitted case is not judged; equality of values in strict cases is judged by digest (64-bit SipHash per block)"],
    },
    "C12": {
        "require": [('sqrt', 'err'), ('log2', 'err'), ('pow', 'err'), ('exp', 'err'), ('powi', 'err'), ('powi', 'value'), ('tan', 'value')],
        "title": "Result-returning math functions are total: Ok or Err, never a panic",
        "stages": [{"driver": "trans"}, {"driver": "transx"}],
        "rule": TRANS_RULE + "pow: bases x exponents from thinner grids; powi: bases x {|n| <= 64, +-2^k, +-(2^k+-1), i32::MIN, MIN+1, MAX, MAX-1} under an iteration budget (a call cut by the budget is counted, not judged); " + TRIG_RULE + "a state is one (function, type pair, operand tuple), a transition one call under catch_unwind with the tick budget; judged: no unwinding, Err for sqrt of a negative, log of a non-positive, fractional power of a negative base, and for exp / pow / powi results that do not fit (true value less the permitted error beyond twice the largest value of the type); tan only where the reference says |tan x| <= 64",
        "assumptions": ["powi with |n| up to 2^31 is linear in |n| by design; calls that exceed the iteration budget (30 000 quick, 250 000 thorough) are cut and reported as unexplored"],
    },
    "C13": {
        "require": [('sqrt', 'err'), ('sqrt', 'value'), ('sqrt', 'zero')],
        "title": "sqrt is accurate to a few units in the last place",
        "stages": [{"driver": "trans"}, {"driver": "transx"}],
        "rule": TRANS_RULE + "oracle: exact integer bracket (R-4)^2 <= X*2^F <= (R+4)^2 on 384-bit integers, sqrt(0) and sqrt(1) exact, result non-negative, Err only for x < 0 or 0 < x < 1 with trunc(2^2F / X) not representable",
    },
    "C14": {
        "require": [('log2', 'err'), ('ln', 'value'), ('log2', 'zero')],
        "title": "log2 and ln are accurate to the destination's resolution",
        "stages": [{"driver": "trans"}, {"driver": "transx"}],
        "rule": TRANS_RULE + "oracle: 256-bit series arithmetic (atanh series; self-tested against f64 libm and identities), f64 libm with a guard band for 32-bit destinations; bounds 8 ulp (log2), 2^-23 |ln x| + 8 ulp (ln), exactness on powers of two, sign rule, Err only for x <= 0 or unrepresentable reciprocal",
    },
    "C15": {
        "require": [('exp', 'value'), ('pow', 'value'), ('powi', 'value'), ('pow', 'zero')],
        "title": "exp, pow and powi are accurate wherever they return Ok",
        "stages": [{"driver": "trans"}, {"driver": "transx"}],
        "rule": TRANS_RULE + "pow: bases x exponents (|y| <= 64 and the extremes) from thinner grids; powi: bases x the exponent alphabet of C12; oracle: 256-bit exp/ln series; bounds exactly as stated in the property; negative powi against the truncated reciprocal of the subject's own powi(x, |n|)",
    },
    "C16": {
        "require": [('sin', 'value'), ('cos', 'value'), ('tan', 'value')],
        "title": "sin, cos and tan are accurate over many periods in every supported type",
        "stages": [{"driver": "trans"}, {"driver": "transx"}],
        "rule": TRIG_RULE + "oracle: 256-bit Taylor series with Machin pi (f64 libm with guard band for I9F23); bounds 2^-16 and range for sin/cos, 2^-14 (1 + tan^2 x) where |tan x| <= 64",
    },
    "C17": {
        "title": "math functions do a bounded amount of work, independent of operand magnitude",
        "stages": [{"driver": "trans"}, {"driver": "transx"}],
        "rule": TRANS_RULE + TRIG_RULE + "plus, for sin/cos/tan, operands over the whole range of each type (far outside |x| <= 200); every call runs with the cfg(substrate_fixed_verif) tick hook: the thread-local loop-iteration counter is reset, the call executed with a budget of 4 x width + 65 (exceeding it unwinds the call), the count read back; judged: count <= 4 x width(destination) + 64; powi excluded",
        "assumptions": ["every loop body of src/transcendental.rs carries a tick() call (hook commit; a loop added without one is invisible to this check)"],
    },
    "C18": {
        "require": [('operators', 'panic'), ('operators', 'value'), ('shift', 'value'), ('sum-product', 'value'), ('from_num', 'panic'), ('parse', 'err')],
        "title": "Wrapping<F> computes exactly the modulo-2^n result and never panics on overflow",
        "stages": [{"driver": "wrap"}],
        "rule": ("explicit-state exploration of Wrapping<F>: the state is the wrapped value. 8-bit layouts: breadth-first search from 0 over the full transition "
                 "graph (all 256 states reached; from every state: 21 unary methods, rotations, shifts by 22 amounts x 12 amount types x 6 value/reference/assigning "
                 "forms, 10 binary operators/methods with every second operand in 6 forms, 5 integer-operand operators with every integer, to_num into 20 "
                 "targets), plus all operation sequences of length 3 over a 12-operation alphabet from every state (implementation chain vs model chain); wider "
                 "layouts: the same transitions from the boundary alphabet with second operands from the boundary alphabet; for all layouts Sum/Product over "
                 "sequences of length 0, 1, 2 and 4, from_num from 21 source types (integers, bool, f32/f64 alphabets, 6 fixed types), From<F>, the limits of Wrapping<F>, FromStr and "
                 "from_str_{binary,octal,hex} on the complete literal families of the parsing check (ties and their neighbourhoods in four radices, wrap-around and limb-carry literals); a transition is one executed call compared with the exact result reduced modulo 2^width (shift amounts modulo the width); "
                 "panic expected only for a zero divisor and non-finite floats"),
        "level_text": "explicit-state model checking of Wrapping<F> on the real code: for each 8-bit layout the complete reachable state graph (256 states) with every transition compared against arithmetic modulo 2^8, for wider layouts boundary states and operands; both build profiles",
    },
    "C10": {
        "title": "SCALE encoding and byte views are the plain little-endian bits of the value",
        "stages": [{"driver": "bytes"}],
        "rule": ("all 506 layouts x every bit pattern of the 8/16-bit layouts, boundary alphabet plus byte-position patterns otherwise; per value 40..60 "
                 "sub-checks: encode / encode_to / encoded_size / max_encoded_len against the little-endian bytes of the pattern and the underlying "
                 "integer's own SCALE encoding, decode round trip, decode with trailing bytes consumes exactly width/8, decode of every proper prefix fails, the same through streaming inputs (remaining_len unknown / known), decode_all, the value inside tuples and Vecs, "
                 "to_/from_{le,be,ne}_bytes, to_/from_bits, Wrapping::{from_bits,to_bits}, serde_json text of Fixed and Wrapping<Fixed> = {\"bits\":n} and back "
                 "(map and sequence form); a state is one (layout, bit pattern), a transition one sub-check; non-trivial = pattern not zero"),
        "assumptions": ["parity-scale-codec's encoding of primitive integers and serde_json are the reference for 'the encoding of the underlying integer' and the {bits} representation", "the subject is built with its optional `serde` feature for this check only"],
    },
    "C08": {
        "require": [('from_str-decimal', 'err'), ('from_str-hex', 'value'), ('overflowing_from_str-binary', 'flag-set'), ('overflowing_from_str-octal', 'value')],
        "title": "parsing returns the correctly rounded value of the literal, or a precise error",
        "stages": [{"driver": "text"}],
        "rule": ("all 506 layouts x radix {2, 8, 10, 16} x {from_str, saturating_, wrapping_, overflowing_}: (a) every string up to a length bound over reduced "
                 "token alphabets for the 90 boundary layouts, (b) for every layout the neighbourhood of representable values and rounding ties (all of "
                 "them for 8-bit layouts, a boundary set otherwise): exact expansion, every prefix class, last digit +-1, a hair above/below the tie at "
                 "every total digit count around the parser's fast-path budgets, ...999 / ...0001 continuations, leading zeros, signs, integer parts at and "
                 "far beyond the range, in-range values plus multiples of 2^n / radix^k of every parsing word (only the last k digits determine the wrapped value), 54- and 28-digit decimal fractions on either side of the limb carry of the two-word decimal path, (c) a list of malformed and extreme strings (10000 digits, non-ASCII, NUL); a state is one (layout, radix, string), a "
                 "transition one parse call compared with exact rational rounding; non-trivial = the string is a well-formed literal"),
        "assumptions": ["for a malformed string any error other than the overflow error is accepted (the property does not fix precedence among malformed kinds)"],
    },
    "C09": {
        "require": [('Display:body', 'value'), ('UpperHex:body', 'value'), ('Display:round-trip', 'value'), ('all:flags', 'value')],
        "title": "formatting is faithful: printed digits are the rounded value and round-trip",
        "stages": [{"driver": "text"}],
        "rule": ("all 506 layouts: every value of the 8-bit layouts (thorough: 16-bit too), boundary alphabet, values next to round decimals and values with a decimal-structured integer part (10^k and neighbours, d * 10^k, 10^k + 10^j, ...) otherwise x "
                 "{Display, Debug, Binary, Octal, LowerHex, UpperHex} x 16 precisions (none, 0..200): digits compared with the exact expansion rounded half-even "
                 "at the number of digits printed, exactness for power-of-two radices, Display -> FromStr round trip; and for a fixed value set per layout the "
                 "full product of 6 traits x {+} x {#} x {0} x 7 alignment/fill x 6 widths x 3 precisions against the padding rule pad(sign ++ prefix ++ body) (Display of Wrapping<F> rendered next to it and required to be identical), the Display round trip also on the values the decimal literal families of the parsing check round to, and three specs per trait written into sinks that refuse after k bytes (no unwinding); "
                 "a state is one (layout, value, format spec), a transition one formatting (or parse-back) call; non-trivial = value not zero"),
        "assumptions": ["the padding rule is that of core::fmt::Formatter::pad_integral (sign, then prefix, zero flag pads after the prefix and overrides fill/alignment, default right alignment)"],
    },
    "C03": {
        "require": [('cmp', 'sat-low'), ('cmp', 'sat-high'), ('cmp', 'zero'), ('cmp<f32>', 'code'), ('cmp_rev<u8>', 'code'), ('same_type_ord_hash<i8>', 'code')],
        "title": "comparisons order the exact values across fixed types, integers and floats; Eq/Ord/Hash within a type",
        "stages": [{"driver": "cross"}, {"driver": "prim"}, {"driver": "crossx", "tiers": ["thorough"]}, {"driver": "primx", "tiers": ["thorough"]}],
        "rule": CROSS_RULE + PRIM_RULE + "a state is one (layout pair, value pair); a transition observes == != < <= > >= partial_cmp (and cmp/Hash/max within a type) and compares with the ordering of the exact rationals; non-trivial = not both operands zero",
    },
    "C04": {
        "require": [('checked_to_num', 'none'), ('overflowing_from_num', 'flag-set'), ('From', 'value'), ('LossyFrom', 'value'), ('checked_from_num<i8>', 'none'), ('overflowing_to_num<u128>', 'flag-set'), ('From_prim<u8>', 'value'), ('LossyFrom_fixed<i64>', 'value')],
        "title": "fixed<->fixed and fixed<->integer conversions exact with precise overflow; From / LossyFrom",
        "stages": [{"driver": "cross"}, {"driver": "prim"}, {"driver": "crossx", "tiers": ["thorough"]}, {"driver": "primx", "tiers": ["thorough"]}],
        "rule": CROSS_RULE + PRIM_RULE + "a transition is one conversion call (to_num/from_num entry points x plain/checked/saturating/wrapping/overflowing, From and LossyFrom wherever the impl exists, detected at compile time) compared with floor(value * 2^dst_frac) and the overflow policy",
        "assumptions": ["From/LossyFrom are judged only for the type pairs for which an impl exists (existence itself is not specified by the property)"],
    },
    "C05": {
        "require": [('checked_from_num<f32>', 'none'), ('from_num<f32>', 'panic'), ('overflowing_from_num<f64>', 'flag-set'), ('to_num<f32>', 'float'), ('From_fixed<f64>', 'float')],
        "title": "float conversions correctly rounded (ties to even) in both directions",
        "stages": [{"driver": "prim"}, {"driver": "primx", "tiers": ["thorough"]}],
        "rule": PRIM_RULE + "thorough: all 2^32 f32 bit patterns into 13 layouts; a transition is one float->fixed or fixed->float conversion call in one of its forms, compared with exact IEEE-754 decode / round-to-nearest-even encode done by integer manipulation",
    },
    "C01": {
        "require": [('checked_mul', 'value'), ('checked_div', 'value'), ('mul@ref_ref', 'value'), ('div@assign_ref', 'value')],
        "title": "products and quotients exactly rounded",
        "stages": [{"driver": "arith"}],
        "rule": ARITH_RULE,
        "assumptions": ["judged only where the exact result is representable (the property's 'whenever')"],
    },
    "C02": {
        "require": [('checked_add', 'none'), ('checked_div', 'none'), ('overflowing_mul', 'flag-set'), ('overflowing_neg', 'flag-set'), ('saturating_mul_int', 'value'), ('checked_abs', 'none'), ('overflowing_div_int', 'flag-set')],
        "title": "checked/saturating/wrapping/overflowing agree on one exact result",
        "stages": [{"driver": "arith"}],
        "rule": ARITH_RULE,
    },
    "C06": {
        "require": [('checked_ceil', 'none'), ('overflowing_round', 'flag-set'), ('overflowing_floor', 'flag-set'), ('checked_round_ties_to_even', 'none'), ('frac', 'value'), ('int', 'value')],
        "title": "rounding operations",
        "stages": [{"driver": "arith"}],
        "rule": ARITH_RULE,
    },
    "C07": {
        "require": [('checked_rem', 'none'), ('checked_div_euclid', 'none'), ('overflowing_rem_euclid_int', 'flag-set'), ('overflowing_div_euclid_int', 'flag-set'), ('checked_rem_euclid_int', 'none')],
        "title": "remainders and Euclidean division",
        "stages": [{"driver": "arith"}],
        "rule": ARITH_RULE,
    },
}

DRIVER_KIND = {
    "trans": "Rust; sqrt/log2/ln/exp/pow/powi/sin/cos/tan on 26 type pairs and 10 trig types against integer brackets, f64 libm with guard band and a 256-bit series reference; loop-iteration counts through the tick hook",
    "transx": "Rust; the trans engine compiled for every other supported layout: 121 further signed same-type pairs (all 64-bit types I10F54..I40F24 and 128-bit types I10F118..I104F24), 57 widening pairs, 143 unsigned-source pairs for sqrt/powi, 121 further trigonometric types; thin operand sets in the quick tier, the quick-tier sets of trans in the thorough tier",
    "wrap": "Rust; explicit-state exploration (BFS over the state graph) of Wrapping<F> for all 506 layouts against arithmetic modulo 2^width",
    "bytes": "Rust; SCALE / byte / bit / serde views of all 506 layouts against the little-endian bytes of the bit pattern",
    "text": "Rust; parsing and formatting of all 506 layouts against exact rational/digit models; runtime-selected format specs through &dyn fmt traits",
    "cross": "Rust; fixed x fixed conversions and comparisons on 2724 compiled layout pairs (crossx: 5952 further pairs, thorough tier)",
    "crossx": "see cross",
    "prim": "Rust; fixed x primitive (12 integers, bool, f32, f64) conversions and comparisons, same-type Ord/Eq/Hash; 90 layouts (primx: the other 416, thorough tier)",
    "primx": "see prim",
    "arith": "Rust; explicit enumeration of same-type unary/binary operations of all 506 layouts against exact integer arithmetic",
}
