"""./check selftest [name ...]: apply each seeded change of /verif/seeded to a scratch worktree of /repo (under
/root/scratch, cargo `paths` override, own target directory), run the quick check of the property it breaks and
require exit 1 with VIOLATION lines; for the benign changes (kind = benign) require exit 0 on every relevant
property. Also runs the oracle self-tests. Takes about an hour for all seeds."""
import os, sys, json, subprocess, glob

ROOT = os.path.dirname(os.path.dirname(os.path.abspath(__file__)))


def main(names, check):
    import seed
    rc = 0
    # oracle self-tests
    check.build(["arith", "trans"], profiles=("unchecked",))
    for drv in ("arith", "trans"):
        p = subprocess.run([check.binary(drv, "unchecked"), "selftest"], stdout=subprocess.PIPE, stderr=subprocess.STDOUT, text=True)
        print(p.stdout.strip())
        if p.returncode != 0:
            print("SELFTEST-FAIL oracle self-test of", drv)
            rc = 1
    seeds = sorted(os.path.basename(os.path.dirname(m)) for m in glob.glob(os.path.join(ROOT, "seeded", "*", "meta.json")))
    if names:
        seeds = [s for s in seeds if s in names]
    missed = []
    for s in seeds:
        meta = json.load(open(os.path.join(ROOT, "seeded", s, "meta.json")))
        benign = meta.get("kind") == "benign"
        props = meta.get("relevant_properties") if benign else (meta.get("selftest_properties") or [meta["breaks_property"]])
        # scratch worktree of /repo + cargo paths override: /repo itself is not touched
        res = seed.run_scratch(s, props, "quick")
        want = "MISSED" if benign else "DETECTED"   # a benign change must leave every check silent
        if not all(v == want for v in res.values()):
            missed.append(s)
    print("selftest: %d seeded changes, %d with an unexpected verdict %s" % (len(seeds), len(missed), missed))
    return 1 if (missed or rc) else 0
