"""./check selftest [name ...]: apply each seeded change of /verif/seeded to /repo (git apply), run the quick check of
the property it breaks, require exit 1 with a VIOLATION line whose replay reproduces, and undo the change
(git checkout -- .). Also runs the oracle self-tests. /repo must be clean."""
import os, sys, json, subprocess, glob

ROOT = os.path.dirname(os.path.dirname(os.path.abspath(__file__)))


def main(names, check):
    import seed
    rc = 0
    # oracle self-tests
    check.build(["arith", "trans"], profiles=("unchecked",))
    for drv in ("arith", "trans"):
        p = subprocess.run([check.binary(drv, "unchecked"), "selftest"], stdout=subprocess.PIPE, stderr=subprocess.STDOUT, text=True)
        print(p.stdout.strip())
        if p.returncode != 0:
            print("SELFTEST-FAIL oracle self-test of", drv)
            rc = 1
    seeds = sorted(os.path.basename(os.path.dirname(m)) for m in glob.glob(os.path.join(ROOT, "seeded", "*", "meta.json")))
    if names:
        seeds = [s for s in seeds if s in names]
    missed = []
    for s in seeds:
        meta = json.load(open(os.path.join(ROOT, "seeded", s, "meta.json")))
        props = meta.get("selftest_properties") or [meta["breaks_property"]]
        res = seed.run(s, props, "quick")
        if not all(v == "DETECTED" for v in res.values()):
            missed.append(s)
    print("selftest: %d seeded changes, %d missed %s" % (len(seeds), len(missed), missed))
    return 1 if (missed or rc) else 0
