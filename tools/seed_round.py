#!/usr/bin/env python3
"""Prepare a round of independently seeded changes: one scratch worktree of /repo and one prompt file per property.

  tools/seed_round.py <round-tag> [Cxx ...]      e.g.  tools/seed_round.py R6 C01 C02

The prompt contains only the property text (title, statement, quantifier) and generic instructions; nothing from /verif.
Worktrees: /tmp/wt/<tag><Cxx>; prompts: /tmp/wt/prompt_<tag><Cxx>.txt. Confirm with tools/seed.py confirm.
"""
import sys, os, json, subprocess

ROOT = os.path.dirname(os.path.dirname(os.path.abspath(__file__)))
AVOID = {
 "C01": "the 128-bit multiplication carries and the frac = 128 special case in `mul_div_fallback!` (src/arith.rs), a shift fast path for power-of-two divisors in `mul_div_widen!`, and the half-digit quotient step in src/wide_div.rs",
 "C02": "the 128-bit `mul_overflow` carries, the frac = 0 fast path of 128-bit `div_overflow`, the bound selection of `saturating_mul_int` / `saturating_add`, and the quotient-digit correction in src/wide_div.rs",
 "C03": "`to_float_kind` (tie handling, early-out), the sign-consistency term of cross-type `eq`, the `lhs_bits != 0` guard of the float-on-the-left `lt`, and float-on-the-left `eq` in `fixed_cmp_float!`",
 "C04": "`to_fixed_helper` in src/int_helper.rs (shift arms, overflow tests), `bool::saturating_to_fixed`, and the overflow tests / bound selection of the `*_from_fixed` functions in src/traits.rs",
 "C05": "`to_float_kind`, the subnormal shift / round-up decision / early-out of `from_to_float_helper` in src/float_helper.rs, and `LossyFrom<Fixed> for f32` in src/convert.rs",
 "C06": "`overflowing_round`, `overflowing_ceil`, `saturating_round`, `overflowing_round_ties_to_even` and `round_to_zero` in src/macros_round.rs",
 "C07": "`checked_rem_euclid_int`, `overflowing_div_euclid_int`, `checked_rem_int` (src/macros_frac.rs), the half-digit step of the wide division in src/wide_div.rs, and `%=` in src/arith.rs",
 "C08": "`get_frac128` routing, the octal integer overflow bound, the hex tie test, the overflow flag of `dec_str_int_to_bin`, and sign handling in `parse_bounds` (src/from_str.rs)",
 "C09": "the auto-precision threshold in `write_frac_dec`, `Buffer::set_len`, the bit count `fmt_radix2` passes to `write_frac`, `u128::mul10_assign` (src/display.rs), and the limb carry of `u128::dec_to_bin` (src/from_str.rs)",
 "C10": "`MaxEncodedLen`, `to_/from_be_bytes`, the `Fixed` trait forwarder of `from_le_bytes`, and hand-written `Encode` / `Decode` impls",
 "C11": "a negation in `rem_euclid_int`, a shift-arm boundary in `to_fixed_helper`, `neg_abs` in src/wide_div.rs, and a dropped carry in `u128::dec_to_bin`",
 "C12": "the series accumulation in `exp`, the Newton start value in `sqrt`, the rounding shift `rs`, and the low-product carry of the 128-bit multiplication",
 "C13": "the Newton start value, taking the reciprocal in the source type, the iteration count, and classifying the operand through an I9F23 conversion",
 "C14": "the rounding shift `rs`, calling `log2_inner` on the unwidened operand, an early break in the fractional loop of `log2_inner`, and testing `x == ONE` through an I9F23 conversion",
 "C15": "the iteration bound of the `exp` series, the unchecked multiplication `y * ln x` in `pow`, the order of sign normalisation and the `operand == ONE` shortcut in `exp`, and a shortcut to 0 for |x| < 1 in `powi`",
 "C16": "the range reduction by remainder, an early exit of the CORDIC loop on a zero residual, a clamp of the denominator in `tan`, and the mirror threshold constant",
 "C17": "the range-reduction guard of `sin`, `pow` delegating to `powi`, an iterate-until-stable loop in `sqrt`, and a `while` fold in `tan`",
 "C18": "`Product`, the shift-amount reduction in `op_shift!`, `Wrapping::signum`, and `dec_str_int_to_bin` / `dec_str_frac_to_bin` in src/from_str.rs",
}
AVOID_R7_EXTRA = {
 "C01": "; also `Product`", "C02": "; also the by-reference assigning operators of `Wrapping`", "C03": "; also `float.partial_cmp(&fixed)`",
 "C04": "; also the `int_to_fixed!` row table in src/convert.rs", "C05": "; also merging the left-shift arms of `to_fixed_helper`",
 "C06": "; also the `Wrapping` rounding forwarders", "C07": "; also the `Wrapping` forwarders", "C08": "; also the carry test `numer_hi << (128 - nbits)` of `u128::dec_to_bin`",
 "C09": "; also `impl Display for Wrapping`", "C10": "; also the `Fixed` trait forwarders of `to_/from_ne_bytes`", "C11": "; also the `Wrapping` operator macros",
 "C12": "; also the exit test of the Newton loop in `sqrt`", "C13": "; also the exit test of the Newton loop", "C14": "; also a small-argument shortcut using the constant `LOG2_E`",
 "C15": "; also the overflow exit of the `exp` series", "C16": "; also a small-angle early return in `sin`", "C17": "; also a second range reduction in `cos`",
 "C18": "; also the 128-bit multiplication carries",
}
AVOID_R9_EXTRA = {
 "C01": "; the 128-bit `div_overflow` fast paths", "C02": "; `div_half!` / `mul_digit`", "C03": "; `FloatHelper::is_nan`; the lost-bits test of the unsigned `to_fixed_helper`",
 "C04": "; 64-bit routing of `i128`/`u128` sources in `impl_int!`; `private_to_fixed_helper` in src/helpers.rs", "C05": "; the float early returns in `impl_float!`; a 64-bit rounding window in `from_to_float_helper`",
 "C06": "; `FRAC_MSB`; the word-sized shift path of `to_fixed_helper`", "C07": "; fast paths of the 128-bit `div_overflow`", "C08": "; `mul_hi_lo`; `Mul10::mul10_add_assign`",
 "C09": "; `Mul10 for u64`; a limb-wise `write_int_dec`", "C10": "; word-wise `to_le_bytes`; a `le_bytes_128` helper", "C11": "; the `+5` step of `dec_str_frac_to_bin`; `Mul10 for u64`",
 "C12": "; a cap on the `powi` loop; a limb-by-limb path in `div_overflow`", "C13": "; the Newton step; `Digit = u64` in `div_half`", "C14": "; a `SQRT_2` comparison in `log2_inner`; `div_log2_e`",
 "C15": "; an underflow fast path in `exp`; an early `break` in `log2_inner`", "C16": "; clamps of the CORDIC outputs", "C17": "; a `while digits > 0` loop in `log2_inner`",
 "C18": "; `exp > EXP_MIN` in `to_float_kind`; `wide_div` early returns",
}
THEMES = {
 "R8": ("3. the property above is violated for SOME inputs, and the violation should be hard to stumble on: it must need something specific to manifest. "
        "A checker is already known to (i) sweep all 8-bit and 16-bit values, (ii) for wider types use boundary values (0, +-1, +-1 ulp, min, max, powers of two at every exponent and neighbours, "
        "all-zero / all-one halves, small integers, exact multiples +-1, ties, values next to the overflow boundary of every conversion), (iii) call every public API form, (iv) cover every fractional-bit count. "
        "This time make the change look like a real maintainer COMMIT of 10-40 lines rather than a one-token slip: an 'optimisation' or 'clean-up' of a SHARED HELPER or table "
        "(src/helpers.rs, src/int_helper.rs, src/float_helper.rs, src/wide_div.rs, src/macros_from_to.rs, the digit/limb helpers of src/from_str.rs and src/display.rs, `FallbackHelper` / `mul_div_widen!` in src/arith.rs, "
        "the type-level bounds and macro row tables of src/convert.rs and src/traits.rs, the constants and loops of src/transcendental.rs): replace a loop by a closed form, add a fast path with a guard, change the width of an intermediate, "
        "reorder two checks, split a function in two, merge two match arms, hoist a computation out of a branch. The new code must be correct for almost all inputs and wrong only where an intermediate quantity "
        "(a partial product, a remainder, a shift distance, a digit count, a normalised exponent, a running value of a loop) takes a particular value or crosses a particular threshold that is NOT a boundary value of the operands themselves. "
        "Choose the site so that the defect surfaces as a violation of THIS property at the observation points listed above. "
        "It must nevertheless be realistic, not an artificial `if x == 0x1234` trap, and it must not be limited to 8-bit or 16-bit types."),
 "R7": ("3. the property above is violated for SOME inputs, and the violation should be hard to stumble on: it must need something specific to manifest. "
        "A checker is already known to (i) sweep all 8-bit and 16-bit values, (ii) for wider types use boundary values (0, +-1, +-1 ulp, min, max, powers of two and neighbours, "
        "all-zero / all-one halves, small integers, exact multiples +-1, ties), (iii) call every public API form (operators by value / by reference / assigning, trait methods, `Wrapping` forwarders, iterator folds). "
        "So do NOT rely on a rarely used API form, and do not touch src/wrapping.rs unless the property is about `Wrapping`. Seed the defect INSIDE one of the mechanisms listed under 'Where the property lives' above "
        "(or a helper they call), so that it is observable at the listed observation points, and make it depend on a coincidence of VALUES or CONFIGURATION: particular middle bits of an operand, a carry/borrow between limbs, "
        "a relation between two operands or between the value and the fractional-bit count, a fractional-bit count or integer-bit count in the middle of its range, a specific source/destination type relation, "
        "a digit count or digit pattern, an exponent/mantissa pattern of a float, an operand band that is narrow relative to the type's range. Two cooperating edits that each look harmless are welcome. "
        "It must nevertheless be a realistic slip, not an artificial `if x == 0x1234` trap, and it must not be limited to 8-bit or 16-bit types."),
 "R6": ("3. the property above is violated for SOME inputs, and the violation should be hard to stumble on: it must need something specific to manifest. "
        "A checker is already known to sweep all 8-bit and 16-bit values and, for wider types, boundary values (0, +-1, +-1 ulp, min, max, powers of two and neighbours, "
        "all-zero / all-one halves, small integers, exact multiples +-1), at the boundary fractional-bit counts 0, 1, 2, width/2 (+-1), width (-0, -1, -2). Aim beyond that. "
        "Prefer one of: (a) TWO COOPERATING SITES that each look fine alone (e.g. a helper whose contract is relaxed slightly and a caller that relied on the old contract; "
        "a constant changed in one place and used in another); (b) a condition that goes wrong only for a MID-RANGE fractional-bit count or width-specific arm "
        "(e.g. only 64-bit types with 20..40 fractional bits, only 32-bit types); (c) a defect that needs a SEQUENCE of operations or a value produced by an earlier call "
        "(e.g. an assigning operator, an iterator adaptor, a fold, a conversion followed by a comparison); (d) a rarely used API FORM (a by-reference operator impl, a trait method of "
        "`Fixed`/`FixedSigned`/`FromFixed`/`ToFixed`/`LossyFrom`, an `impl` for `Wrapping`, `Sum`/`Product`, an assigning form) that is wired differently from the inherent method. "
        "It must nevertheless be a realistic slip, not an artificial `if x == 0x1234` trap, and it must not be limited to 8-bit or 16-bit types."),
}
C17_EXTRA = ("\n   For this property: the lines `#[cfg(substrate_fixed_verif)] crate::verif::tick();` are an iteration counter used by an external harness: keep one at the top of the body "
             "of every loop in src/transcendental.rs (if you add or restructure a loop, give the new loop body its own tick line), but do not otherwise rely on them. The demonstration "
             "may measure work by wall-clock time with a generous margin, or by exposing the effect through results; say which.")


def main():
    tag = sys.argv[1]
    props = {json.loads(l)["id"]: json.loads(l) for l in open(os.path.join(ROOT, "properties.jsonl"))}
    ids = sys.argv[2:] or sorted(props)
    t0 = open(os.path.join(ROOT, "tools", "seed_prompt_template.txt")).read()
    start = t0.index("3. the property above")
    end = t0.index("4. Do not touch tests")
    t0 = t0[:start] + THEMES.get(tag, THEMES["R8"]) + "\n" + t0[end:]
    t0 = t0.replace("Three other engineers", "Several other engineers").replace("pass `-j 4` to cargo", "pass `-j 2` to cargo")
    os.makedirs("/tmp/wt", exist_ok=True)
    for pid in ids:
        wt = "/tmp/wt/%s%s" % (tag, pid)
        if not os.path.exists(wt):
            subprocess.run(["git", "-C", "/repo", "worktree", "add", "-q", "--detach", wt, "HEAD"], check=True)
            subprocess.run(["cp", "/repo/Cargo.lock", wt + "/"])
        p = props[pid]
        text = (p["title"] + "\n\n" + p["statement"] + "\n\nQuantification: " + p["quantifier"]["text"]).strip()
        if tag >= "R7":
            text += "\n\nWhy the existing tests cannot settle it: " + p["why_tests_cant"]
            text += "\n\nWhere the property lives:\n" + "\n".join("- %s (%s)" % (m["name"], m["where"]) for m in p["anchors"]["mechanism"])
            text += "\nObservation points: " + "; ".join(p["anchors"]["observe_at"])
        if tag >= "R8":
            t0x = t0.replace("Finish by reporting a 5-line summary.", "Work in small steps: keep every individual message short (a few sentences of reasoning, then a tool call); never write long derivations in a single message. Finish by reporting a 5-line summary.")
        else:
            t0x = t0
        t = t0x.replace("__WT__", wt).replace("__PROP__", text).replace("__AVOID__", AVOID[pid] + (AVOID_R7_EXTRA.get(pid, "") if tag >= "R7" else "") + (AVOID_R9_EXTRA.get(pid, "") if tag >= "R9" else "")).replace("__EXTRA__", C17_EXTRA if pid == "C17" else "")
        open("/tmp/wt/prompt_%s%s.txt" % (tag, pid), "w").write(t)
        print(wt)


if __name__ == "__main__":
    main()
