#!/usr/bin/env python3
"""Writes /verif/MANIFEST.json from tools/config.py and properties.jsonl."""
import json, os, sys, subprocess
ROOT = os.path.dirname(os.path.dirname(os.path.abspath(__file__)))
sys.path.insert(0, os.path.join(ROOT, "tools"))
import config
props = [json.loads(l) for l in open(os.path.join(ROOT, "properties.jsonl"))]
hook_commits = subprocess.run(["git", "-C", "/repo", "log", "--format=%H", "--grep=^verif hooks"], capture_output=True, text=True).stdout.split()
checks, na = [], []
for p in props:
    pid = p["id"]
    spec = config.PROPS.get(pid)
    if spec is None or spec.get("not_applicable"):
        na.append({"property_id": pid, "reason": (spec or {}).get("not_applicable", "check not built yet in this round (planned, see DESIGN.md section 3)")})
        continue
    checks.append({
        "property_id": pid,
        "quick_cmd": "./check %s quick" % pid,
        "thorough_cmd": "./check %s thorough" % pid,
        "evidence_file": "/verif/evidence/%s.json" % pid,
        "replay_cmd_template": "./check replay {path}",
        "engine": "+".join(sorted(set(s["driver"] for s in spec["stages"]))),
        "level_claimed": {
            "category": "model_checking",
            "text": spec.get("level_text", "bounded exhaustive exploration of the real code: every input of the stated finite domains (complete for 8-bit and, for unary operations and conversions, 16-bit instantiations; boundary alphabets for wider ones) is executed on the implementation in two build profiles and compared with an independent exact reference model; " + spec["title"]),
            "design_ref": "DESIGN.md section 3, " + pid,
        },
        "level_note": spec.get("level_note", "trusted: the reference model in harness/ (self-tested), rustc; bounds: alphabets for widths >= 32 as stated in the evidence rule"),
        "technique": spec.get("technique", "explicit-state bounded exhaustive enumeration of inputs/configurations on the implementation against a reference model (stateless model checking of a sequential library)"),
    })
m = {
    "version": 1,
    "setup_cmd": "./check build",
    "hooks": {
        "guard": "--cfg substrate_fixed_verif",
        "enable": "harness/.cargo/config.toml sets build.rustflags = [\"--cfg\", \"substrate_fixed_verif\"] for every driver build (the subject is a path dependency on /repo)",
        "baseline_off_cmd": "cd /repo && cargo test --workspace --no-fail-fast --offline --lib",
        "source_commits": hook_commits,
        "add_only": True,
    },
    "engines": [{"name": d, "path": "/verif/harness/" + d, "serves_properties": sorted(p for p, s in config.PROPS.items() if any(st["driver"] == d for st in s.get("stages", []))), "kind_free_text": config.DRIVER_KIND.get(d, "")} for d in config.ALL_DRIVERS],
    "checks": checks,
    "not_applicable": na,
    "notes": "All checks run the real crate from /repo's working tree (cargo path dependency, rebuilt on every invocation) in two profiles. ./check <id> <tier> exits 0/1/2 (held / VIOLATION / machinery). Known findings: /verif/KNOWN_FINDINGS.",
}
json.dump(m, open(os.path.join(ROOT, "MANIFEST.json"), "w"), indent=1)
print("checks:", len(checks), "not_applicable:", len(na))
