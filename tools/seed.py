#!/usr/bin/env python3
"""Confirm and keep a seeded property-breaking change.

  tools/seed.py confirm <worktree> <name> <property> [--needs "..."]
      In the scratch worktree (change applied, seed/patch.diff + seed/demo.rs present):
      66 unit tests pass with the change, the demonstration fails with it and passes without it.
      On success the seed is stored as /verif/seeded/<name>/{patch.diff,demo.rs,meta.json}.
  tools/seed.py run <name> [<property> ...] [--tier quick]
      git -C /repo apply the patch, run ./check for the given properties (default: the seed's own),
      undo with git -C /repo checkout -- . ; prints DETECTED / MISSED per property.
"""
import sys, os, json, subprocess, shutil, re

ROOT = os.path.dirname(os.path.dirname(os.path.abspath(__file__)))
SEEDED = os.path.join(ROOT, "seeded")


def sh(cmd, cwd=None, env=None, timeout=3600):
    e = dict(os.environ)
    e["CARGO_NET_OFFLINE"] = "true"
    if env:
        e.update(env)
    p = subprocess.run(cmd, cwd=cwd, env=e, shell=isinstance(cmd, str), stdout=subprocess.PIPE, stderr=subprocess.STDOUT, text=True, timeout=timeout)
    return p.returncode, p.stdout


def test_summary(out):
    m = re.findall(r"test result: (\w+)\. (\d+) passed; (\d+) failed", out)
    return m


def confirm(wt, name, prop, needs):
    seed = os.path.join(wt, "seed")
    patch = os.path.join(seed, "patch.diff")
    demo = os.path.join(seed, "demo.rs")
    assert os.path.exists(patch) and os.path.exists(demo), "seed/patch.diff and seed/demo.rs required"
    env = {"CARGO_TARGET_DIR": os.path.join(wt, "target")}
    ran = []
    # normalise: start from the clean tree, apply the patch file (so that what we keep is what we test)
    sh("git checkout -- src && git clean -fdq tests", cwd=wt)
    rc, out = sh(["git", "apply", "--check", patch], cwd=wt)
    assert rc == 0, "patch does not apply to the unmodified tree:\n" + out
    os.makedirs(os.path.join(wt, "tests"), exist_ok=True)
    shutil.copy(demo, os.path.join(wt, "tests", "demo.rs"))
    # without the change: demo passes
    rc, out = sh("cargo test --offline --test demo 2>&1", cwd=wt, env=env)
    base_demo = test_summary(out)
    ran.append("unmodified tree: cargo test --offline --test demo -> rc=%d %s" % (rc, base_demo))
    assert rc == 0, "demonstration does not pass on the unmodified tree:\n" + out[-3000:]
    # with the change
    rc, out = sh(["git", "apply", patch], cwd=wt)
    assert rc == 0, out
    rc, out = sh("cargo test --offline --lib 2>&1", cwd=wt, env=env)
    unit = test_summary(out)
    ran.append("with change: cargo test --offline --lib -> rc=%d %s" % (rc, unit))
    assert rc == 0 and unit and unit[0][1] == "66" and unit[0][2] == "0", "unit tests do not pass 66/66 with the change:\n" + out[-3000:]
    rc, out = sh("cargo test --offline --test demo 2>&1", cwd=wt, env=env)
    mut_demo = test_summary(out)
    ran.append("with change: cargo test --offline --test demo -> rc=%d %s" % (rc, mut_demo))
    assert rc != 0, "demonstration does not fail with the change"
    # also in release (profile-dependent seeds are noted)
    rc2, out2 = sh("cargo test --offline --release --test demo 2>&1", cwd=wt, env=env)
    ran.append("with change: cargo test --offline --release --test demo -> rc=%d %s" % (rc2, test_summary(out2)))
    shutil.rmtree(os.path.join(wt, "tests"), ignore_errors=True)
    dst = os.path.join(SEEDED, name)
    os.makedirs(dst, exist_ok=True)
    shutil.copy(patch, os.path.join(dst, "patch.diff"))
    shutil.copy(demo, os.path.join(dst, "demo.rs"))
    notes = os.path.join(seed, "NOTES.md")
    if os.path.exists(notes):
        shutil.copy(notes, os.path.join(dst, "NOTES.md"))
    files = sorted(set(re.findall(r"^\+\+\+ b/(\S+)", open(patch).read(), re.M)))
    meta = {"name": name, "breaks_property": prop, "files_changed": files, "needs_to_manifest": needs, "confirmed": ran, "origin": "independent sub-agent given only the property text and a scratch worktree", "detected_by": {}}
    json.dump(meta, open(os.path.join(dst, "meta.json"), "w"), indent=1)
    print("CONFIRMED", name, "->", dst)
    for r in ran:
        print("  ", r)


def run(name, props, tier):
    dst = os.path.join(SEEDED, name)
    meta = json.load(open(os.path.join(dst, "meta.json")))
    if not props:
        props = [meta["breaks_property"]]
    rc, out = sh("git -C /repo status --porcelain --untracked-files=no")
    assert out.strip() == "", "/repo has uncommitted changes:\n" + out
    rc, out = sh(["git", "-C", "/repo", "apply", os.path.join(dst, "patch.diff")])
    assert rc == 0, out
    res = {}
    try:
        for p in props:
            rc, out = sh([os.path.join(ROOT, "check"), p, tier], cwd=ROOT, env={"VERIF_NO_EVIDENCE": "1"})
            viol = [l for l in out.splitlines() if l.startswith("VIOLATION")]
            verdict = "DETECTED" if rc == 1 and viol else ("MISSED" if rc == 0 else "MACHINERY(rc=%d)" % rc)
            first = next((l for l in out.splitlines() if l.startswith("  ") and "observed" in l), "")
            print("%s %s %s: %s (%d VIOLATION lines) %s" % (name, p, tier, verdict, len(viol), first.strip()[:300]))
            if verdict.startswith("MACHINERY"):
                print(out[-2000:])
            res[p] = verdict
    finally:
        sh("git -C /repo checkout -- .")
        shutil.rmtree(os.path.join(ROOT, "replays"), ignore_errors=True)
    meta.setdefault("detected_by", {})
    for p, v in res.items():
        meta["detected_by"]["%s %s" % (p, tier)] = v
    json.dump(meta, open(os.path.join(dst, "meta.json"), "w"), indent=1)
    return res


def run_scratch(name, props, tier):
    """Like run(), but on a scratch worktree of /repo (cargo `paths` override, separate target directory), so that
    /repo itself is not touched (usable while a long run reads /repo)."""
    import importlib.machinery, importlib.util
    loader = importlib.machinery.SourceFileLoader("check_mod", os.path.join(ROOT, "check"))
    spec = importlib.util.spec_from_loader("check_mod", loader)
    check = importlib.util.module_from_spec(spec)
    loader.exec_module(check)
    dst = os.path.join(SEEDED, name)
    meta = json.load(open(os.path.join(dst, "meta.json")))
    if not props:
        props = meta.get("relevant_properties") or [meta["breaks_property"]]
    wt = "/root/scratch/seedrepo"
    tgt = "/root/scratch/seedtarget"
    if not os.path.exists(wt):
        rc, out = sh(["git", "-C", "/repo", "worktree", "add", "-q", "--detach", wt, "HEAD"])
        assert rc == 0, out
    sh("git checkout -q --detach $(git -C /repo rev-parse HEAD) && git checkout -- .", cwd=wt)
    rc, out = sh(["git", "apply", os.path.join(dst, "patch.diff")], cwd=wt)
    assert rc == 0, out
    res = {}
    os.environ["VERIF_NO_EVIDENCE"] = "1"
    try:
        for p in props:
            import io, contextlib
            buf = io.StringIO()
            try:
                with contextlib.redirect_stdout(buf):
                    rc = check.check_property(p, tier, repo_override={"repo": wt, "target": tgt})
            except SystemExit as e:
                rc = e.code
            out = buf.getvalue()
            viol = [l for l in out.splitlines() if l.startswith("VIOLATION")]
            verdict = "DETECTED" if rc == 1 and viol else ("MISSED" if rc == 0 else "MACHINERY(rc=%s)" % rc)
            res[p] = verdict
            if meta.get("kind") == "benign":
                verdict = {"DETECTED": "FALSE-ALARM", "MISSED": "SILENT(ok)"}.get(verdict, verdict)
            first = next((l for l in out.splitlines() if l.startswith("  ") and "observed" in l), "")
            print("%s %s %s: %s (%d VIOLATION lines) %s" % (name, p, tier, verdict, len(viol), first.strip()[:300]), flush=True)
            if verdict.startswith("MACHINERY"):
                print(out[-2000:])
    finally:
        sh("git checkout -- .", cwd=wt)
        shutil.rmtree(os.path.join(ROOT, "replays"), ignore_errors=True)
    meta.setdefault("detected_by", {})
    for p, v in res.items():
        meta["detected_by"]["%s %s" % (p, tier)] = v
    json.dump(meta, open(os.path.join(dst, "meta.json"), "w"), indent=1)
    return res


if __name__ == "__main__":
    a = sys.argv[1:]
    if a[0] == "confirm":
        needs = ""
        if "--needs" in a:
            needs = a[a.index("--needs") + 1]
        confirm(a[1], a[2], a[3], needs)
    elif a[0] == "run":
        tier = "quick"
        if "--tier" in a:
            tier = a[a.index("--tier") + 1]
            i = a.index("--tier")
            a = a[:i] + a[i + 2:]
        if "--scratch" in a:
            a.remove("--scratch")
            run_scratch(a[1], a[2:], tier)
        else:
            run(a[1], a[2:], tier)
