//! Driver `text`: parsing (C08) and formatting (C09) of all 506 layouts against exact rational
//! models. Also feeds the C11 corpus (every outcome is digested).
#![allow(unused_imports, dead_code)]
mod oracle;
mod render;
mod render_gen;

use oracle::*;
use render::*;
use std::hash::Hasher;
use substrate_fixed::types::extra;
use substrate_fixed::*;
use vcore::alpha::{self, Tier};
use vcore::litfam::tie_strings;
use vcore::par::{run_jobs, subject};
use vcore::report::{Args, Report, Tally, Violation};
use vcore::{mask, Lay, Layout, Out, ZN};

pub struct Entry {
    l: Layout,
    parse: fn(u32, usize, &str) -> Out,
    boxed: fn(u128) -> Box<dyn AllFmt>,
    /// the same value inside `Wrapping<F>`, which implements `Display` only (every trait of the box forwards to it)
    boxed_w: fn(u128) -> Box<dyn AllFmt>,
}

/// `Wrapping<F>` implements `Display` by forwarding to `F`; this adapter lets the `&dyn AllFmt` renderer drive it
pub struct ViaDisplay<T: std::fmt::Display>(pub T);
macro_rules! via_display {
    ($($Tr:ident)*) => { $(
        impl<T: std::fmt::Display> std::fmt::$Tr for ViaDisplay<T> {
            fn fmt(&self, f: &mut std::fmt::Formatter) -> std::fmt::Result {
                std::fmt::Display::fmt(&self.0, f)
            }
        }
    )* };
}
via_display!(Display Debug Binary Octal LowerHex UpperHex);

/// The overflow error is recognised by comparing with a reference error obtained from the library itself
/// (ParseFixedError is PartialEq but has no public kind accessor); only if that calibration is impossible the
/// message text is used.
fn overflow_reference() -> Option<ParseFixedError> {
    static R: std::sync::OnceLock<Option<ParseFixedError>> = std::sync::OnceLock::new();
    *R.get_or_init(|| {
        let ov = subject(|| "99999999999999999999999999999999999999999999999999".parse::<substrate_fixed::types::U8F0>()).and_then(|r| r.err());
        let other = subject(|| "x".parse::<substrate_fixed::types::U8F0>()).and_then(|r| r.err());
        match (ov, other) {
            (Some(a), Some(b)) if a != b => Some(a),
            _ => None,
        }
    })
}
fn err_code(e: substrate_fixed::ParseFixedError) -> Out {
    let is_overflow = match overflow_reference() {
        Some(r) => e == r,
        None => e.to_string() == "overflow",
    };
    if is_overflow {
        Out::E(0)
    } else {
        Out::E(1)
    }
}

macro_rules! group {
    ($g:ident: [ $( ($T:ty, $B:ident, $w:expr, $f:expr, $s:ident) ),* ]) => {
        mod $g {
            use super::*;
            fn parse<F: Lay>(radix: u32, form: usize, s: &str) -> Out {
                let v = |r: Result<F, ParseFixedError>| match r { Ok(x) => Out::V(x.raw()), Err(e) => err_code(e) };
                match (form, radix) {
                    (0, 2) => v(F::from_str_binary(s)),
                    (0, 8) => v(F::from_str_octal(s)),
                    (0, 16) => v(F::from_str_hex(s)),
                    (0, _) => v(s.parse::<F>()),
                    (1, 2) => v(F::saturating_from_str_binary(s)),
                    (1, 8) => v(F::saturating_from_str_octal(s)),
                    (1, 16) => v(F::saturating_from_str_hex(s)),
                    (1, _) => v(F::saturating_from_str(s)),
                    (2, 2) => v(F::wrapping_from_str_binary(s)),
                    (2, 8) => v(F::wrapping_from_str_octal(s)),
                    (2, 16) => v(F::wrapping_from_str_hex(s)),
                    (2, _) => v(F::wrapping_from_str(s)),
                    (_, r) => {
                        let res = match r { 2 => F::overflowing_from_str_binary(s), 8 => F::overflowing_from_str_octal(s), 16 => F::overflowing_from_str_hex(s), _ => F::overflowing_from_str(s) };
                        match res { Ok((x, o)) => Out::P(x.raw(), o), Err(e) => err_code(e) }
                    }
                }
            }
            fn boxed<F: Lay>(raw: u128) -> Box<dyn AllFmt> {
                Box::new(F::from_raw(raw))
            }
            fn boxed_w<F: Lay>(raw: u128) -> Box<dyn AllFmt> {
                Box::new(ViaDisplay(substrate_fixed::Wrapping(F::from_raw(raw))))
            }
            pub fn register(v: &mut Vec<Entry>) {
                $( v.push(Entry { l: <$T as Lay>::LAYOUT, parse: parse::<$T>, boxed: boxed::<$T>, boxed_w: boxed_w::<$T> }); )*
            }
        }
    };
}
vcore::for_each_group!(group);
macro_rules! table {
    ($($g:ident)*) => {
        fn table() -> Vec<Entry> {
            let mut v = vec![];
            $( $g::register(&mut v); )*
            v.sort_by_key(|e| (e.l.w, !e.l.signed, e.l.frac));
            v
        }
    };
}
vcore::with_group_names!(table);

const FORMS: [&str; 4] = ["from_str", "saturating_from_str", "wrapping_from_str", "overflowing_from_str"];
fn radix_name(r: u32) -> &'static str {
    match r {
        2 => "binary",
        8 => "octal",
        16 => "hex",
        _ => "decimal",
    }
}

// ------------------------------------------------------------------ string sets

/// all strings up to `len` characters over `alphabet`
fn all_strings(alphabet: &str, len: usize) -> Vec<String> {
    let chars: Vec<char> = alphabet.chars().collect();
    let mut out = vec![String::new()];
    let mut layer = vec![String::new()];
    for _ in 0..len {
        let mut next = Vec::with_capacity(layer.len() * chars.len());
        for s in &layer {
            for &c in &chars {
                let mut t = s.clone();
                t.push(c);
                next.push(t);
            }
        }
        out.extend(next.iter().cloned());
        layer = next;
    }
    out
}

fn short_string_sets(tier: Tier) -> Vec<(u32, Vec<String>)> {
    let (l2, l8, l16, l10) = match tier {
        Tier::Quick => (6, 4, 4, 5),
        Tier::Thorough => (8, 6, 6, 7),
    };
    vec![(2, all_strings("01.+-x", l2)), (8, all_strings("017.+-8", l8)), (16, all_strings("08fF.+-g", l16)), (10, all_strings("01459.+- ", l10))]
}

fn malformed_list() -> Vec<String> {
    let mut v: Vec<String> = ["", "+", "-", ".", "+.", "-.", "..", "1..", ".1.", "1.2.3", "1+", "1-", "1+2", "1-2", "+-1", "-+1", "++1", "--1", "1e5", "1E5", "0x1", "0b1", "0o1", " 1", "1 ", "1_000", "١", "é", "1\u{0}", "\u{0}", "1.5f", "NaN", "inf", "-inf", "１", "1,5", "½", "1é2", "1.é", "é.5", "12½", "0.5１", "-é", "+１", "1.\u{301}5", "\u{feff}1", "1\u{200b}", "1.5\n", "\t1", "1__2", "0x", "1.e", "1.-5", "-", "1.+5", ".+5", "+.5.", "5.-", "٣.١٤"]
        .iter()
        .map(|s| s.to_string())
        .collect();
    v.push("1".repeat(10000));
    v.push(format!("0.{}", "1".repeat(10000)));
    v.push(format!("{}.5", "9".repeat(300)));
    v.push(format!("-{}", "7".repeat(1000)));
    v.push("0".repeat(10000));
    v.push(format!("{}1", "0".repeat(5000)));
    v.push(format!("1.{}", "0".repeat(5000)));
    v
}

// ------------------------------------------------------------------ parse exploration

fn parse_case(l: Layout, radix: u32, form: usize, s: &str) -> String {
    format!("text parse {} {} {} {}", l.name(), radix, FORMS[form], hex_str(s))
}
fn hex_str(s: &str) -> String {
    // strings may contain spaces/control characters: encode as hex of the UTF-8 bytes
    let mut o = String::from("utf8:");
    for b in s.bytes() {
        o.push_str(&format!("{:02x}", b));
    }
    o
}
fn unhex_str(s: &str) -> String {
    let h = s.strip_prefix("utf8:").expect("utf8: prefix");
    let bytes: Vec<u8> = (0..h.len() / 2).map(|i| u8::from_str_radix(&h[2 * i..2 * i + 2], 16).unwrap()).collect();
    String::from_utf8(bytes).unwrap()
}
fn shorten(s: &str) -> String {
    if s.len() > 80 {
        format!("{}...({} bytes)", &s[..60.min(s.len())].escape_default(), s.len())
    } else {
        s.escape_default().to_string()
    }
}

struct JobOut {
    rep: Report,
    dig: Vec<(String, u64)>,
}

fn parse_job(e: &Entry, radix: u32, strings: &[String], kind: &str, c11: bool) -> JobOut {
    let l = e.l;
    let mut rep = Report::new("text", "", "");
    let mut tally = Tally::new(4);
    let mut dig: Vec<std::collections::hash_map::DefaultHasher> = (0..4).map(|_| Default::default()).collect();
    for s in strings {
        rep.states += 1;
        let valid = lex(s, radix).is_some();
        if valid {
            rep.nontrivial_states += 1;
        }
        for form in 0..4 {
            let got = subject(|| (e.parse)(radix, form, s)).unwrap_or(Out::Panic);
            rep.transitions += 1;
            tally.counts[form][got.class()] += 1;
            if c11 {
                dig[form].write(s.as_bytes());
                got.feed(&mut dig[form]);
                continue;
            }
            let exp = expect_parse(l, radix, form, s);
            rep.judged += 1;
            tally.judged[form] += 1;
            if got != exp {
                let diff = match (&got, &exp) {
                    (Out::Panic, _) => "panic",
                    (Out::E(_), Out::E(_)) => "error-kind",
                    (Out::E(1), _) => "valid-literal-rejected",
                    (Out::E(0), _) => "spurious-overflow-error",
                    (_, Out::E(1)) => "malformed-accepted",
                    (_, Out::E(0)) => "missing-overflow-error",
                    (Out::P(a, x), Out::P(b, y)) if a == b && x != y => "flag",
                    (Out::P(_, x), Out::P(_, y)) if x == y && *x => "value-on-overflow",
                    _ => "value",
                };
                rep.violation(Violation {
                    key: format!("{} {}-{}", l.class(), FORMS[form], radix_name(radix)),
                    diff: format!("{}:{}", kind, diff),
                    case: parse_case(l, radix, form, s),
                    observed: got.to_string(),
                    expected: exp.to_string(),
                    note: format!("literal {:?} (E(0) = overflow error, E(1) = other error)", shorten(s)),
                    kf: None,
                });
            }
        }
    }
    let names: Vec<String> = FORMS.iter().map(|f| format!("{}-{}", f, radix_name(radix))).collect();
    let nr: Vec<&str> = names.iter().map(|s| s.as_str()).collect();
    rep.add_tally(&l.class(), &nr, &tally);
    let dig = dig.into_iter().enumerate().map(|(i, h)| (format!("{} parse-{}-{}-{}", l.name(), kind, radix, FORMS[i]), h.finish())).collect();
    JobOut { rep, dig }
}

// ------------------------------------------------------------------ format exploration

const PRECS_FULL: [Option<usize>; 16] = [None, Some(0), Some(1), Some(2), Some(3), Some(5), Some(8), Some(17), Some(38), Some(39), Some(40), Some(64), Some(127), Some(128), Some(129), Some(200)];
const PRECS_SMALL: [Option<usize>; 5] = [None, Some(1), Some(2), Some(3), Some(17)];
const WIDTHS: [Option<usize>; 6] = [None, Some(0), Some(1), Some(7), Some(40), Some(140)];

fn fmt_values(l: Layout, tier: Tier) -> (Vec<u128>, Vec<u128>) {
    // (values for the full precision grid, values for the small grid)
    let w = l.w;
    let main = match (w, tier) {
        (8, _) => alpha::all_values(8),
        (16, Tier::Thorough) => alpha::all_values(16),
        _ => alpha::boundary(l, tier),
    };
    // values close to round decimals: round(d/den * 2^f) + j
    let mut near: Vec<u128> = vec![];
    if l.frac > 0 {
        let ds: Vec<(u128, u128)> = match tier {
            Tier::Quick => {
                let mut v: Vec<(u128, u128)> = (1..10).map(|d| (d, 10)).collect();
                v.extend([(1, 100), (5, 100), (25, 100), (75, 100), (99, 100), (1, 1000), (125, 1000), (999, 1000)]);
                v
            }
            Tier::Thorough => (1..1000).map(|d| (d, 1000)).collect(),
        };
        let js: &[i128] = match tier {
            Tier::Quick => &[-2, -1, 0, 1, 2],
            Tier::Thorough => &[-12, -3, -2, -1, 0, 1, 2, 3, 12],
        };
        let seen: std::collections::HashSet<u128> = main.iter().cloned().collect();
        let mut s2 = std::collections::HashSet::new();
        for (d, den) in ds {
            // round(d * 2^f / den)
            let num = ZN::<8>::from_u128(d).shl(l.frac);
            let (q, r) = num.divrem_small(den as u64);
            let q = q.low128().wrapping_add((2 * r as u128 >= den) as u128);
            for &j in js {
                let v = (q as i128).wrapping_add(j) as u128 & mask(w);
                if !seen.contains(&v) && s2.insert(v) {
                    near.push(v);
                    if l.signed {
                        let n = v.wrapping_neg() & mask(w);
                        if !seen.contains(&n) && s2.insert(n) {
                            near.push(n);
                        }
                    }
                }
            }
        }
    }
    // values whose *decimal* integer part is structured: 10^k and its neighbours, d * 10^k, 10^k + 10^j, digit
    // patterns with zeros at the second and at inner positions (105 * 10^(k-2), 1001 * 10^(k-3)), all nines, for every
    // k the integer part can hold -- the inputs on which a limb-wise or table-driven integer formatter places a digit
    // in the wrong slot; each also with a fraction of one half where the layout has one
    let ib = l.int_bits().saturating_sub(l.signed as u32);
    if ib >= 4 {
        let seen: std::collections::HashSet<u128> = main.iter().chain(near.iter()).cloned().collect();
        let mut s2 = std::collections::HashSet::new();
        let limit = ZN::<8>::pow2(ib);
        let mut p = ZN::<8>::one();
        let mut pows: Vec<ZN<8>> = vec![];
        while p.lt(&limit) {
            pows.push(p);
            p = p.mul_small(10);
        }
        let mut cands: Vec<ZN<8>> = vec![];
        for (k, &pk) in pows.iter().enumerate() {
            cands.push(pk);
            cands.push(pk.add(ZN::<8>::one()));
            if k > 0 {
                cands.push(pk.sub(ZN::<8>::one()));
            }
            for d in [2u64, 3, 5, 9, 11, 12, 19, 99, 101, 105, 109, 1001, 1234567890123456789] {
                cands.push(pk.mul_small(d));
            }
            if k >= 2 {
                cands.push(pk.add(pows[k / 2]));
                cands.push(pk.add(pows[k - 1]));
                cands.push(pk.add(pows[k - 2]).add(ZN::<8>::one()));
            }
        }
        for c in cands {
            if c.lt(&limit) {
                let raw0 = c.shl(l.frac).low128();
                let half = if l.frac >= 1 { 1u128 << (l.frac - 1) } else { 0 };
                for raw in [raw0, raw0 | half, if l.signed { raw0.wrapping_neg() & mask(w) } else { raw0 }] {
                    let raw = raw & mask(w);
                    if !seen.contains(&raw) && s2.insert(raw) {
                        near.push(raw);
                    }
                }
            }
        }
    }
    (main, near)
}

/// values the decimal literal families of the parsing check round to (and their neighbours): the default `Display`
/// output of such a value is a long literal next to the one it was built from, so the round trip drives the
/// subject's parser into the same rare paths (limb carries of the two-word decimal path, ties at the digit
/// budgets) that the literals themselves were constructed for
fn stress_values(l: Layout, tier: Tier, have: &[&[u128]]) -> Vec<u128> {
    if l.w == 8 || l.frac == 0 {
        return vec![];
    }
    let mut seen: std::collections::HashSet<u128> = have.iter().flat_map(|v| v.iter().cloned()).collect();
    let mut out = vec![];
    for (radix, s) in tie_strings(l, tier) {
        if radix != 10 {
            continue;
        }
        if let Out::V(v) = expect_parse(l, 10, 2, &s) {
            for d in [0u128, 1, mask(l.w)] {
                let x = v.wrapping_add(d) & mask(l.w);
                if seen.insert(x) {
                    out.push(x);
                }
            }
        }
    }
    out
}

fn fmt_case(l: Layout, raw: u128, spec: &Spec) -> String {
    format!("text fmt {} {:#x} {}", l.name(), raw, spec.to_string())
}

/// write the rendering into a sink that refuses after `cap` bytes; the result (Ok or the sink's Err) is returned
fn render_limited(v: &dyn AllFmt, spec: &Spec, cap: usize) -> bool {
    let mut sink = render::Limited { cap, got: 0 };
    render_gen::render_to(&mut sink, v, spec).is_ok()
}

fn fmt_job(e: &Entry, tier: Tier, c11: bool) -> JobOut {
    let l = e.l;
    let mut rep = Report::new("text", "", "");
    let mut tally = Tally::new(8);
    let mut dig: Vec<std::collections::hash_map::DefaultHasher> = (0..8).map(|_| Default::default()).collect();
    let (main, near) = fmt_values(l, tier);
    let key = |tr: usize, what: &str| format!("{} {}:{}", l.class(), TRAITS[tr], what);
    let mut body_check = |rep: &mut Report, raw: u128, precs: &[Option<usize>], traits: &[usize]| {
        rep.states += 1;
        if raw != 0 {
            rep.nontrivial_states += 1;
        }
        let v = (e.boxed)(raw);
        for &tr in traits {
            for &prec in precs {
                let spec = Spec::plain(tr, prec);
                let got = subject(|| render(&*v, &spec));
                rep.transitions += 1;
                let Some(s) = got else {
                    tally.counts[tr][6] += 1;
                    if c11 {
                        dig[tr].write_u128(raw);
                        dig[tr].write(b"panic");
                    } else {
                        rep.violation(Violation { key: key(tr, "body"), diff: "panic".into(), case: fmt_case(l, raw, &spec), observed: "panic".into(), expected: "a string".into(), note: String::new(), kf: None });
                    }
                    continue;
                };
                tally.counts[tr][0] += 1;
                if c11 {
                    dig[tr].write_u128(raw);
                    dig[tr].write(s.as_bytes());
                    continue;
                }
                rep.judged += 1;
                tally.judged[tr] += 1;
                if let Err(why) = judge_body(l, raw, tr, prec, &s) {
                    rep.violation(Violation { key: key(tr, "body"), diff: if prec.is_some() { "digits-with-precision".into() } else { "digits-default".into() }, case: fmt_case(l, raw, &spec), observed: s.clone(), expected: why, note: format!("value = {} * 2^-{}", l.z(raw), l.frac), kf: None });
                }
                // round trip of the default Display output through the subject's own parser
                if tr == 0 && prec.is_none() {
                    let back = subject(|| (e.parse)(10, 0, &s)).unwrap_or(Out::Panic);
                    rep.transitions += 1;
                    rep.judged += 1;
                    tally.counts[6][back.class()] += 1;
                    tally.judged[6] += 1;
                    if back != Out::V(raw & mask(l.w)) {
                        // attribute blame with the exact parser model
                        let model = expect_parse(l, 10, 0, &s);
                        let note = if model == Out::V(raw & mask(l.w)) { "the exact parser model maps the printed text back to the value, so the fault is in the subject's parser" } else { "the printed text is not nearest to this value: even an exact parser maps it elsewhere" };
                        rep.violation(Violation { key: format!("{} Display:round-trip", l.class()), diff: "round-trip".into(), case: fmt_case(l, raw, &spec), observed: format!("{:?} parses back to {}", s, back), expected: format!("{:#x}", raw & mask(l.w)), note: note.into(), kf: None });
                    }
                }
            }
        }
    };
    let all_traits = [0usize, 1, 2, 3, 4, 5];
    for &raw in &main {
        body_check(&mut rep, raw, &PRECS_FULL, &all_traits);
    }
    for &raw in &near {
        body_check(&mut rep, raw, &PRECS_SMALL, &[0, 1]);
    }
    for &raw in &stress_values(l, tier, &[&main, &near]) {
        body_check(&mut rep, raw, &[None], &[0]);
    }
    drop(body_check);
    // flags / width / alignment / fill: only padding and prefixes may change
    let flag_values: Vec<u128> = {
        let mut v = vec![0u128, 1, mask(l.w), l.max_raw(), l.min_raw(), 0x55 & mask(l.w), (0xa5a5_a5a5_a5a5_a5a5_a5a5_a5a5_a5a5_a5a5u128) & mask(l.w)];
        if l.frac < l.w {
            v.push((1u128 << l.frac) & mask(l.w));
            v.push(((1u128 << l.frac) + 1) & mask(l.w));
        }
        if l.frac >= 4 {
            v.push((1u128 << (l.frac - 4)) * 3 & mask(l.w));
        }
        v.sort();
        v.dedup();
        v
    };
    let flag_precs: [Option<usize>; 3] = [None, Some(0), Some(3)];
    for &raw in &flag_values {
        let v = (e.boxed)(raw);
        let vw = (e.boxed_w)(raw);
        let neg_value = l.z(raw).is_neg();
        for tr in 0..6 {
            for &prec in &flag_precs {
                let plain = Spec::plain(tr, prec);
                let Some(b0) = subject(|| render(&*v, &plain)) else { continue };
                let (neg0, body) = split_sign(&b0);
                let _ = neg_value;
                // environment answer: a sink that refuses bytes after the first k (k = 0, 1, half, all but one).
                // Only unwinding is judged (no value or flag combination panics); the formatter must hand the
                // sink's error back, which it can only do by not panicking.
                if !c11 {
                    for (si, spec) in [plain, Spec { tr, plus: true, alt: true, zero: true, align: 0, width: Some(b0.len() + 5), prec }, Spec { tr, plus: false, alt: false, zero: false, align: 6, width: Some(b0.len() + 3), prec }].into_iter().enumerate() {
                        for cap in [0usize, 1, b0.len() / 2, b0.len().saturating_sub(1)] {
                            rep.states += 1;
                            rep.transitions += 1;
                            rep.judged += 1;
                            let ok = subject(|| render_limited(&*v, &spec, cap)).is_some();
                            if !ok {
                                rep.violation(Violation {
                                    key: format!("{} {}:failing-sink", l.class(), TRAITS[tr]),
                                    diff: "panic".into(),
                                    case: format!("text fmt-sink {} {:#x} {} {}", l.name(), raw, spec.to_string(), cap),
                                    observed: format!("panic while writing into a sink that accepts {} bytes (spec variant {})", cap, si),
                                    expected: "an fmt::Error (or a result), no unwinding".into(),
                                    note: format!("unflagged rendering is {:?}", b0),
                                    kf: None,
                                });
                            }
                        }
                    }
                }
                for plus in [false, true] {
                    for alt in [false, true] {
                        for zero in [false, true] {
                            for align in 0..ALIGNS.len() {
                                for &width in &WIDTHS {
                                    let spec = Spec { tr, plus, alt, zero, align, width, prec };
                                    if spec == plain {
                                        continue;
                                    }
                                    rep.states += 1;
                                    rep.nontrivial_states += 1;
                                    let got = subject(|| render(&*v, &spec));
                                    rep.transitions += 1;
                                    let got_s = got.clone().unwrap_or_else(|| "panic".into());
                                    tally.counts[7][if got.is_some() { 0 } else { 6 }] += 1;
                                    if c11 {
                                        dig[7].write_u128(raw);
                                        dig[7].write(got_s.as_bytes());
                                        continue;
                                    }
                                    rep.judged += 1;
                                    tally.judged[7] += 1;
                                    // `Wrapping<F>` displays as `F` does, under every format specification
                                    if tr == 0 && got.is_some() {
                                        let gw = subject(|| render(&*vw, &spec));
                                        rep.transitions += 1;
                                        rep.judged += 1;
                                        if gw != got {
                                            rep.violation(Violation {
                                                key: format!("{} Display:wrapping", l.class()),
                                                diff: if gw.is_none() { "panic".into() } else { "wrapping-differs".into() },
                                                case: format!("text fmt-wrapping {} {:#x} {}", l.name(), raw, spec.to_string()),
                                                observed: format!("{:?}", gw.unwrap_or_else(|| "panic".into())),
                                                expected: format!("{:?}", got_s),
                                                note: "Display of Wrapping<F> must be the Display of F under the same format specification".into(),
                                                kf: None,
                                            });
                                        }
                                    }
                                    let exp = pad_rule(neg0, body, &spec);
                                    if got_s != exp && got.is_some() && pad_lenient(neg0, body, &spec, &got_s) {
                                        // padding distributed differently from Formatter::pad_integral, but only padding differs
                                        *rep.extra.entry("renderings_with_nonstandard_padding_distribution".into()).or_default() += 1;
                                    } else if got_s != exp {
                                        rep.violation(Violation {
                                            key: format!("{} {}:flags", l.class(), TRAITS[tr]),
                                            diff: if got.is_none() { "panic".into() } else { "padding-or-prefix".into() },
                                            case: fmt_case(l, raw, &spec),
                                            observed: format!("{:?}", got_s),
                                            expected: format!("{:?}", exp),
                                            note: format!("unflagged rendering is {:?}; flags may only add sign, prefix and padding", b0),
                                            kf: None,
                                        });
                                    }
                                }
                            }
                        }
                    }
                }
            }
        }
    }
    let names = ["Display:body", "Debug:body", "Binary:body", "Octal:body", "LowerHex:body", "UpperHex:body", "Display:round-trip", "all:flags"];
    rep.add_tally(&l.class(), &names, &tally);
    let dig = dig.into_iter().enumerate().map(|(i, h)| (format!("{} fmt-{}", l.name(), names[i]), h.finish())).collect();
    JobOut { rep, dig }
}

// ------------------------------------------------------------------ commands

enum Job<'a> {
    Short { e: &'a Entry, radix: u32, set: &'a [String] },
    Ties { e: &'a Entry },
    Malformed { e: &'a Entry },
    Fmt { e: &'a Entry },
}

fn short_layout(l: Layout) -> bool {
    l.w == 8 || alpha::frac_star(l.w).contains(&l.frac)
}

fn cmd_run(args: &Args) {
    let prop = args.get("prop").expect("--prop");
    let tier = Tier::parse(&args.get("tier").unwrap_or("quick".into()));
    let only = args.get("only");
    let t0 = std::time::Instant::now();
    let tab: Vec<Entry> = table().into_iter().filter(|e| only.as_ref().map_or(true, |o| *o == e.l.name() || *o == e.l.family())).collect();
    let sets = short_string_sets(tier);
    let mal = malformed_list();
    let c11 = prop == "C11";
    let do_parse = prop == "C08" || c11;
    let do_fmt = prop == "C09" || c11;
    let mut jobs: Vec<Job> = vec![];
    for e in &tab {
        if do_parse {
            if short_layout(e.l) {
                for (radix, set) in &sets {
                    for ch in set.chunks(100_000) {
                        jobs.push(Job::Short { e, radix: *radix, set: ch });
                    }
                }
            }
            jobs.push(Job::Ties { e });
            jobs.push(Job::Malformed { e });
        }
        if do_fmt {
            jobs.push(Job::Fmt { e });
        }
    }
    let results = run_jobs(&jobs, |j| match j {
        Job::Short { e, radix, set } => parse_job(e, *radix, set, "short", c11),
        Job::Ties { e } => {
            let ts = tie_strings(e.l, tier);
            let mut out: Option<JobOut> = None;
            for radix in [10u32, 2, 8, 16] {
                let v: Vec<String> = ts.iter().filter(|(r, _)| *r == radix).map(|(_, s)| s.clone()).collect();
                let r = parse_job(e, radix, &v, "tie", c11);
                match &mut out {
                    None => out = Some(r),
                    Some(o) => {
                        o.rep.merge(r.rep);
                        o.dig.extend(r.dig);
                    }
                }
            }
            out.unwrap()
        }
        Job::Malformed { e } => {
            let mut out: Option<JobOut> = None;
            for radix in [10u32, 2, 8, 16] {
                let r = parse_job(e, radix, &mal, "list", c11);
                match &mut out {
                    None => out = Some(r),
                    Some(o) => {
                        o.rep.merge(r.rep);
                        o.dig.extend(r.dig);
                    }
                }
            }
            out.unwrap()
        }
        Job::Fmt { e } => fmt_job(e, tier, c11),
    });
    let mut rep = Report::new("text", &prop, tier.name());
    let mut digs: std::collections::BTreeMap<String, std::collections::hash_map::DefaultHasher> = Default::default();
    for r in results {
        for (k, d) in r.dig {
            digs.entry(k).or_default().write_u64(d);
        }
        rep.merge(r.rep);
    }
    if c11 {
        for (k, h) in digs {
            rep.digests.insert(k, format!("{:016x}", h.finish()));
        }
    }
    rep.layouts = tab.len() as u64;
    if do_parse {
        let e = &tab[tab.len() / 3];
        for (radix, s) in tie_strings(e.l, tier).into_iter().skip(40).step_by(997).take(6) {
            let got = subject(|| (e.parse)(radix, 3, &s)).unwrap_or(Out::Panic);
            rep.samples.push(format!("{} radix {} overflowing parse {:?} -> {} (model {})", e.l.name(), radix, shorten(&s), got, expect_parse(e.l, radix, 3, &s)));
        }
        rep.extra.insert("short_strings_per_layout".into(), sets.iter().map(|(_, s)| s.len() as u64).sum());
        rep.extra.insert("layouts_with_all_short_strings".into(), tab.iter().filter(|e| short_layout(e.l)).count() as u64);
        rep.extra.insert("malformed_list".into(), mal.len() as u64);
        rep.complete_subspaces.push(format!(
            "every string up to {} characters over the reduced token alphabets (radix 2: 01.+-x, 8: 017.+-8, 16: 08fF.+-g, 10: 01459.+-space) for all 8-bit layouts and the boundary fractional-bit counts of the wider families",
            match tier {
                Tier::Quick => "6/4/4/5",
                Tier::Thorough => "8/6/6/7",
            }
        ));
        rep.complete_subspaces.push("for every 8-bit layout: every representable magnitude and every rounding tie, with prefixes, +-1 in the last digit, ...999 and ...0001 continuations, in all four radices".into());
    }
    if do_fmt {
        let e = &tab[tab.len() / 2];
        for (i, raw) in fmt_values(e.l, tier).0.into_iter().skip(9).step_by(31).take(4).enumerate() {
            let spec = Spec { tr: i % 6, plus: i % 2 == 0, alt: true, zero: false, align: 2 + i, width: Some(40), prec: Some(3) };
            let v = (e.boxed)(raw);
            rep.samples.push(format!("{} -> {:?}", fmt_case(e.l, raw, &spec), subject(|| render(&*v, &spec))));
        }
        rep.complete_subspaces.push("every value of the 18 8-bit layouts (thorough: also of the 34 16-bit layouts) x 6 traits x 16 precisions; Display round trip for each".into());
        rep.complete_subspaces.push("for a fixed set of values per layout: the full product of 6 traits x {+} x {#} x {0} x 7 alignment/fill x 6 widths x 3 precisions".into());
    }
    rep.wall_s = t0.elapsed().as_secs_f64();
    rep.write(&args.get("out").expect("--out"));
    println!(
        "text prop={} tier={} profile={} layouts={} states={} transitions={} judged={} mismatches={} wall={:.1}s",
        rep.prop,
        rep.tier,
        vcore::profile_name(),
        rep.layouts,
        rep.states,
        rep.transitions,
        rep.judged,
        rep.violation_counts.values().sum::<u64>(),
        rep.wall_s
    );
}

fn cmd_replay(a: &[String]) -> i32 {
    let tab = table();
    println!("profile:  {}", vcore::profile_name());
    match a[0].as_str() {
        "parse" => {
            let l = Layout::parse(&a[1]).unwrap();
            let e = tab.iter().find(|e| e.l == l).unwrap();
            let radix: u32 = a[2].parse().unwrap();
            let form = FORMS.iter().position(|f| *f == a[3]).unwrap();
            let s = unhex_str(&a[4]);
            let got = subject(|| (e.parse)(radix, form, &s)).unwrap_or(Out::Panic);
            let exp = expect_parse(l, radix, form, &s);
            println!("call:     {}::{}(radix {}) on {:?}", l.name(), FORMS[form], radix, shorten(&s));
            println!("observed: {}", got);
            println!("expected: {}   (E(0) = overflow error, E(1) = other error)", exp);
            if got == exp {
                println!("AGREES");
                0
            } else {
                println!("DIFFERS");
                1
            }
        }
        "fmt-sink" => {
            let l = Layout::parse(&a[1]).unwrap();
            let e = tab.iter().find(|e| e.l == l).unwrap();
            let raw = u128::from_str_radix(a[2].trim_start_matches("0x"), 16).unwrap();
            let spec = Spec::parse(&a[3]).expect("format spec");
            let cap: usize = a[4].parse().expect("sink capacity");
            let v = (e.boxed)(raw);
            let got = subject(|| render_limited(&*v, &spec, cap));
            println!("call:     write!(sink accepting {} bytes, {:?}, {}::from_bits({:#x}))", cap, spec.to_string(), l.name(), raw);
            match got {
                Some(ok) => {
                    println!("observed: returned {}", if ok { "Ok" } else { "Err" });
                    println!("expected: a result, no unwinding");
                    println!("AGREES");
                    0
                }
                None => {
                    println!("observed: panic");
                    println!("expected: a result, no unwinding");
                    println!("DIFFERS (panic)");
                    1
                }
            }
        }
        "fmt-wrapping" => {
            let l = Layout::parse(&a[1]).unwrap();
            let e = tab.iter().find(|e| e.l == l).unwrap();
            let raw = u128::from_str_radix(a[2].trim_start_matches("0x"), 16).unwrap();
            let spec = Spec::parse(&a[3]).expect("format spec");
            let (v, vw) = ((e.boxed)(raw), (e.boxed_w)(raw));
            let plain = subject(|| render(&*v, &spec));
            let wrapped = subject(|| render(&*vw, &spec));
            println!("call:     format!({:?}, Wrapping({}::from_bits({:#x})))", spec.to_string(), l.name(), raw);
            println!("observed: {:?}", wrapped);
            println!("expected: {:?} (the rendering of the wrapped value itself)", plain);
            if plain == wrapped {
                println!("AGREES");
                0
            } else {
                println!("DIFFERS");
                1
            }
        }
        "fmt" => {
            let l = Layout::parse(&a[1]).unwrap();
            let e = tab.iter().find(|e| e.l == l).unwrap();
            let raw = u128::from_str_radix(a[2].trim_start_matches("0x"), 16).unwrap();
            let spec = Spec::parse(&a[3]).expect("format spec");
            let v = (e.boxed)(raw);
            let got = subject(|| render(&*v, &spec));
            println!("call:     format!({:?}, {}::from_bits({:#x}))", spec.to_string(), l.name(), raw);
            println!("observed: {:?}", got);
            let Some(s) = got else {
                println!("DIFFERS (panic)");
                return 1;
            };
            let plain = Spec::plain(spec.tr, spec.prec);
            if spec == plain {
                let mut bad = false;
                match judge_body(l, raw, spec.tr, spec.prec, &s) {
                    Ok(_) => println!("expected: digits agree with the exact value"),
                    Err(why) => {
                        println!("expected: {}", why);
                        bad = true;
                    }
                }
                if spec.tr == 0 && spec.prec.is_none() {
                    let back = subject(|| (e.parse)(10, 0, &s)).unwrap_or(Out::Panic);
                    println!("round trip: parses back to {} (value {:#x})", back, raw & mask(l.w));
                    bad |= back != Out::V(raw & mask(l.w));
                }
                if bad {
                    println!("DIFFERS");
                    1
                } else {
                    println!("AGREES");
                    0
                }
            } else {
                let b0 = subject(|| render(&*v, &plain)).unwrap_or_default();
                let (neg0, body) = split_sign(&b0);
                let exp = pad_rule(neg0, body, &spec);
                println!("expected: {:?} (unflagged rendering {:?} + padding rule)", exp, b0);
                if exp == s {
                    println!("AGREES");
                    0
                } else {
                    println!("DIFFERS");
                    1
                }
            }
        }
        _ => 2,
    }
}

fn cmd_dump(args: &Args) {
    // dump <layout> <block...> --tier T : block names as in the digests
    let l = Layout::parse(&args.v[1]).unwrap();
    let block = &args.v[2];
    let tier = Tier::parse(&args.get("tier").unwrap_or("quick".into()));
    let tab = table();
    let e = tab.iter().find(|e| e.l == l).unwrap();
    use std::io::Write;
    let mut o = std::io::BufWriter::new(std::io::stdout().lock());
    if let Some(rest) = block.strip_prefix("parse-") {
        let p: Vec<&str> = rest.split('-').collect();
        let (kind, radix, form) = (p[0], p[1].parse::<u32>().unwrap(), FORMS.iter().position(|f| *f == p[2]).unwrap());
        let strings: Vec<String> = match kind {
            "short" => short_string_sets(tier).into_iter().find(|(r, _)| *r == radix).unwrap().1,
            "tie" => tie_strings(l, tier).into_iter().filter(|(r, _)| *r == radix).map(|(_, s)| s).collect(),
            _ => malformed_list(),
        };
        for s in strings {
            let got = subject(|| (e.parse)(radix, form, &s)).unwrap_or(Out::Panic);
            writeln!(o, "{}\t{}", parse_case(l, radix, form, &s), got).unwrap();
        }
    } else {
        let which = block.strip_prefix("fmt-").unwrap();
        let (main, near) = fmt_values(l, tier);
        let tr = TRAITS.iter().position(|t| which.starts_with(t));
        if which.ends_with(":body") {
            let tr = tr.unwrap();
            for (vals, precs) in [(&main, &PRECS_FULL[..]), (&near, &PRECS_SMALL[..])] {
                if std::ptr::eq(vals, &near) && tr > 1 {
                    continue;
                }
                for &raw in vals.iter() {
                    let v = (e.boxed)(raw);
                    for &prec in precs {
                        let spec = Spec::plain(tr, prec);
                        writeln!(o, "{}\t{:?}", fmt_case(l, raw, &spec), subject(|| render(&*v, &spec))).unwrap();
                    }
                }
            }
        } else {
            writeln!(o, "(flag blocks are not dumped; rerun ./check C09 to localise)").unwrap();
        }
    }
}

fn main() {
    vcore::par::install_hook();
    let args = Args::from_env();
    match args.cmd() {
        "run" => cmd_run(&args),
        "replay" => std::process::exit(cmd_replay(&args.v[1..])),
        "dump" => cmd_dump(&args),
        _ => {
            eprintln!("usage: text run --prop C08|C09|C11 --tier T --out FILE [--only L] | replay parse L RADIX FORM utf8:HEX | replay fmt L RAW SPEC | dump L BLOCK --tier T");
            std::process::exit(2);
        }
    }
}
