//! Reference models for text: the literal grammar with exact rational rounding (parsing) and
//! exact digit expansion with half-even rounding plus the padding rule (formatting).
use crate::render::{Spec, ALIGNS};
use vcore::{mask, Layout, Out, ZN};

pub use vcore::lit::{expect_parse, lex, Lit};

// ---------------------------------------------------------------- formatting

pub fn radix_of(tr: usize) -> u32 {
    [10, 10, 2, 8, 16, 16][tr]
}

fn digit_char(d: u64, upper: bool) -> char {
    let c = std::char::from_digit(d as u32, 16).unwrap();
    if upper {
        c.to_ascii_uppercase()
    } else {
        c
    }
}

/// |value| rounded half-even to nd fractional digits in the radix, as text "int[.frac]";
/// also reports whether the result is exact
pub fn exact_body(mag: u128, frac: u32, radix: u32, nd: usize, upper: bool) -> (String, bool) {
    // q = round(mag * radix^nd / 2^frac)
    type B = ZN<20>;
    let mut x = B::from_u128(mag);
    for _ in 0..nd {
        x = x.mul_small(radix as u64);
    }
    let fl = x.shr_floor(frac);
    let rem = x.sub(fl.shl(frac));
    let exact = rem.is_zero();
    let mut q = fl;
    if !exact {
        let twice = rem.shl(1);
        let one = B::pow2(frac);
        match twice.cmp(&one) {
            std::cmp::Ordering::Greater => q = q.add(B::one()),
            std::cmp::Ordering::Equal => {
                if q.is_odd() {
                    q = q.add(B::one())
                }
            }
            _ => {}
        }
    }
    let mut ds: Vec<char> = vec![];
    let mut y = q;
    while !y.is_zero() {
        let (qq, r) = y.divrem_small(radix as u64);
        ds.push(digit_char(r, upper));
        y = qq;
    }
    while ds.len() < nd + 1 {
        ds.push('0');
    }
    ds.reverse();
    let int_len = ds.len() - nd;
    let mut s: String = ds[..int_len].iter().collect();
    if nd > 0 {
        s.push('.');
        s.extend(ds[int_len..].iter());
    }
    (s, exact)
}

/// split an unflagged rendering into (negative sign?, body)
pub fn split_sign(s: &str) -> (bool, &str) {
    match s.strip_prefix('-') {
        Some(r) => (true, r),
        None => (false, s),
    }
}

pub fn count_frac_digits(body: &str) -> Option<usize> {
    let mut parts = body.split('.');
    let ip = parts.next()?;
    if ip.is_empty() || !ip.bytes().all(|b| b.is_ascii_hexdigit()) {
        return None;
    }
    match parts.next() {
        None => Some(0),
        Some(fp) => {
            if parts.next().is_some() || fp.is_empty() || !fp.bytes().all(|b| b.is_ascii_hexdigit()) {
                return None;
            }
            Some(fp.len())
        }
    }
}

/// the padding rule: flagged output = pad(sign ++ prefix ++ body)
pub fn pad_rule(neg: bool, body: &str, spec: &Spec) -> String {
    let sign = if neg {
        "-"
    } else if spec.plus {
        "+"
    } else {
        ""
    };
    let prefix = if spec.alt { ["", "", "0b", "0o", "0x", "0x"][spec.tr] } else { "" };
    let len = sign.len() + prefix.len() + body.chars().count();
    let pad = spec.width.map(|w| w.saturating_sub(len)).unwrap_or(0);
    let mut out = String::new();
    if spec.zero {
        out.push_str(sign);
        out.push_str(prefix);
        for _ in 0..pad {
            out.push('0');
        }
        out.push_str(body);
        return out;
    }
    let al = ALIGNS[spec.align];
    let fill = if al.len() == 2 { al.chars().next().unwrap() } else { ' ' };
    let dir = al.chars().last().unwrap_or('>');
    let (left, right) = match dir {
        '<' => (0, pad),
        '^' => (pad / 2, pad - pad / 2),
        _ => (pad, 0),
    };
    for _ in 0..left {
        out.push(fill);
    }
    out.push_str(sign);
    out.push_str(prefix);
    out.push_str(body);
    for _ in 0..right {
        out.push(fill);
    }
    out
}

/// Judge an unflagged rendering (no width, no flags) of a value. Returns Err(description).
pub fn judge_body(l: Layout, raw: u128, tr: usize, prec: Option<usize>, s: &str) -> Result<(bool, String), String> {
    let radix = radix_of(tr);
    let za = l.z(raw);
    let neg_value = za.is_neg();
    let mag = za.abs().low128();
    let (neg, body) = split_sign(s);
    let Some(nd) = count_frac_digits(body) else { return Err(format!("output {:?} is not [-]digits[.digits]", s)) };
    if let Some(p) = prec {
        if nd != p {
            return Err(format!("{} fractional digits printed, precision {} requested", nd, p));
        }
    }
    let (exp_body, exact) = exact_body(mag, l.frac, radix, nd, tr == 5);
    if body != exp_body {
        return Err(format!("digits {:?} but the exact value rounded (ties to even) at {} fractional digits is {:?}", body, nd, exp_body));
    }
    let rounded_is_zero = exp_body.bytes().all(|b| b == b'0' || b == b'.');
    if neg != neg_value && !(rounded_is_zero && neg_value && !neg) {
        return Err(format!("sign: output {:?} for a {} value", s, if neg_value { "negative" } else { "non-negative" }));
    }
    if prec.is_none() && radix != 10 && !exact {
        return Err(format!("{:?} is not the exact value (power-of-two radix without precision must be exact)", s));
    }
    Ok((neg, body.to_string()))
}

/// Lenient form of the padding rule, used when the strict rule does not match: the flags may
/// distribute padding differently, but stripping fill characters and pad zeros must leave exactly
/// sign ++ prefix ++ body, and the total length must be max(width, unpadded length).
pub fn pad_lenient(neg: bool, body: &str, spec: &Spec, got: &str) -> bool {
    let sign = if neg {
        "-"
    } else if spec.plus {
        "+"
    } else {
        ""
    };
    let prefix = if spec.alt { ["", "", "0b", "0o", "0x", "0x"][spec.tr] } else { "" };
    let unpadded = sign.len() + prefix.len() + body.chars().count();
    let want_len = spec.width.map(|w| w.max(unpadded)).unwrap_or(unpadded);
    if got.chars().count() != want_len {
        return false;
    }
    let al = ALIGNS[spec.align];
    let fill = if al.len() == 2 { al.chars().next().unwrap() } else { ' ' };
    let core = got.trim_start_matches(fill).trim_end_matches(fill);
    let Some(rest) = core.strip_prefix(sign) else { return false };
    let Some(rest) = rest.strip_prefix(prefix) else { return false };
    // pad zeros (if any) sit in front of the body
    rest == body || (rest.len() > body.len() && rest.ends_with(body) && rest[..rest.len() - body.len()].bytes().all(|b| b == b'0'))
}
