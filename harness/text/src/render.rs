//! Runtime-selected format specifications. Rust format strings are compile-time, so every
//! combination of trait x flags x alignment/fill x (width?) x (precision?) is a literal here,
//! instantiated once through `&dyn AllFmt`.
use std::fmt::{Binary, Debug, Display, LowerHex, Octal, UpperHex};

pub trait AllFmt: Display + Debug + Binary + Octal + LowerHex + UpperHex {}
impl<T: Display + Debug + Binary + Octal + LowerHex + UpperHex> AllFmt for T {}

pub const TRAITS: [&str; 6] = ["Display", "Debug", "Binary", "Octal", "LowerHex", "UpperHex"];
/// alignment/fill combinations: none, '<', '^', '>' with default fill, and with fill '*'
pub const ALIGNS: [&str; 7] = ["", "<", "^", ">", "*<", "*^", "*>"];

#[derive(Clone, Copy, Debug, PartialEq, Eq)]
pub struct Spec {
    pub tr: usize,
    pub plus: bool,
    pub alt: bool,
    pub zero: bool,
    pub align: usize,
    pub width: Option<usize>,
    pub prec: Option<usize>,
}

impl Spec {
    pub fn plain(tr: usize, prec: Option<usize>) -> Spec {
        Spec { tr, plus: false, alt: false, zero: false, align: 0, width: None, prec }
    }
    pub fn to_string(&self) -> String {
        let ty = ["", "?", "b", "o", "x", "X"][self.tr];
        format!(
            "{{:{}{}{}{}{}{}{}}}",
            ALIGNS[self.align],
            if self.plus { "+" } else { "" },
            if self.alt { "#" } else { "" },
            if self.zero { "0" } else { "" },
            self.width.map(|w| w.to_string()).unwrap_or_default(),
            self.prec.map(|p| format!(".{}", p)).unwrap_or_default(),
            ty
        )
    }
    pub fn parse(s: &str) -> Option<Spec> {
        let inner = s.strip_prefix("{:")?.strip_suffix('}')?;
        let mut rest = inner;
        let mut align = 0;
        for (i, a) in ALIGNS.iter().enumerate().rev() {
            if !a.is_empty() && rest.starts_with(a) {
                align = i;
                rest = &rest[a.len()..];
                break;
            }
        }
        let mut plus = false;
        let mut alt = false;
        let mut zero = false;
        if rest.starts_with('+') {
            plus = true;
            rest = &rest[1..];
        }
        if rest.starts_with('#') {
            alt = true;
            rest = &rest[1..];
        }
        if rest.starts_with('0') {
            zero = true;
            rest = &rest[1..];
        }
        let tr = match rest.chars().last() {
            Some('?') => 1,
            Some('b') => 2,
            Some('o') => 3,
            Some('x') => 4,
            Some('X') => 5,
            _ => 0,
        };
        if tr != 0 {
            rest = &rest[..rest.len() - 1];
        }
        let (w, p) = match rest.split_once('.') {
            Some((w, p)) => (w, Some(p)),
            None => (rest, None),
        };
        let width = if w.is_empty() { None } else { Some(w.parse().ok()?) };
        let prec = match p {
            Some(p) => Some(p.parse().ok()?),
            None => None,
        };
        Some(Spec { tr, plus, alt, zero, align, width, prec })
    }
}

pub use crate::render_gen::render;

/// a sink that accepts `cap` bytes and then refuses
pub struct Limited {
    pub cap: usize,
    pub got: usize,
}
impl std::fmt::Write for Limited {
    fn write_str(&mut self, s: &str) -> std::fmt::Result {
        if self.got + s.len() > self.cap {
            self.got = self.cap;
            return Err(std::fmt::Error);
        }
        self.got += s.len();
        Ok(())
    }
}
