//! Driver `bytes`: SCALE encoding, byte views, bit views and the serde representation of all
//! 506 layouts (and Wrapping<F>) against the plain little-endian bytes of the bit pattern.
#![allow(unused_imports, dead_code)]
use codec::{Decode, Encode, MaxEncodedLen};
use std::hash::Hasher;
use substrate_fixed::traits::Fixed;
use substrate_fixed::types::extra;
use substrate_fixed::*;
use vcore::alpha::{self, Tier};
use vcore::par::{run_jobs, subject};
use vcore::report::{Args, Report, Tally, Violation};
use vcore::{mask, Lay, Layout, Out};

pub struct Entry {
    l: Layout,
    /// runs all sub-checks on one bit pattern; returns (number of sub-checks, failures, digest)
    check: fn(u128) -> (u64, Vec<(&'static str, String)>, u64),
}

fn le_bytes(raw: u128, w: u32) -> Vec<u8> {
    (0..w / 8).map(|i| (raw >> (8 * i)) as u8).collect()
}

macro_rules! chk {
    ($n:ident, $fails:ident, $name:literal, $cond:expr, $($arg:tt)*) => {
        $n += 1;
        if !($cond) {
            $fails.push(($name, format!($($arg)*)));
        }
    };
}
/// An input that hands out bytes only through `read` and either knows its remaining length or answers
/// "unknown" (`Ok(None)`), as readers over sockets or files do.
pub struct Stream<'a> {
    pub data: &'a [u8],
    pub pos: usize,
    pub known: bool,
}
impl<'a> codec::Input for Stream<'a> {
    fn remaining_len(&mut self) -> Result<Option<usize>, codec::Error> {
        Ok(if self.known { Some(self.data.len() - self.pos) } else { None })
    }
    fn read(&mut self, into: &mut [u8]) -> Result<(), codec::Error> {
        if self.data.len() - self.pos < into.len() {
            return Err("not enough data".into());
        }
        into.copy_from_slice(&self.data[self.pos..self.pos + into.len()]);
        self.pos += into.len();
        Ok(())
    }
}
macro_rules! define_check {
    () => {
            fn check<F, const N: usize>(raw: u128) -> (u64, Vec<(&'static str, String)>, u64)
            where
                F: Lay + Fixed<Bytes = [u8; N]> + Encode + Decode + MaxEncodedLen + serde::Serialize + serde::de::DeserializeOwned + PartialEq + std::fmt::Debug,
                F::Bits: Encode + Copy + PartialEq + std::fmt::Debug + std::fmt::Display,
                Wrapping<F>: serde::Serialize + serde::de::DeserializeOwned,
            {
                let l = F::LAYOUT;
                let w = l.w;
                let nb = (w / 8) as usize;
                let mut fails: Vec<(&'static str, String)> = vec![];
                let mut n = 0u64;
                let mut h = std::collections::hash_map::DefaultHasher::new();
                let x = F::from_raw(raw);
                let bits = F::bits_from_raw(raw);
                let le = le_bytes(raw, w);
                let be: Vec<u8> = le.iter().rev().cloned().collect();
                // 1. SCALE encoding = little-endian bytes of the bit pattern = the integer's own encoding
                let enc = x.encode();
                h.write(&enc);
                chk!(n, fails, "encode-is-le-bytes", enc == le, "encode() = {:02x?}, little-endian bytes of the bits = {:02x?}", enc, le);
                let ienc = bits.encode();
                chk!(n, fails, "encode-is-integer-encoding", enc == ienc, "encode() = {:02x?}, encoding of the underlying integer = {:02x?}", enc, ienc);
                chk!(n, fails, "encoded-size", x.encoded_size() == nb, "encoded_size() = {}, width/8 = {}", x.encoded_size(), nb);
                chk!(n, fails, "max-encoded-len", F::max_encoded_len() == nb, "max_encoded_len() = {}, width/8 = {}", F::max_encoded_len(), nb);
                let mut buf = vec![];
                x.encode_to(&mut buf);
                chk!(n, fails, "encode-to", buf == le, "encode_to() wrote {:02x?}", buf);
                // 2. decoding
                let mut input: &[u8] = &le;
                let dec = F::decode(&mut input);
                chk!(n, fails, "decode-round-trip", dec.as_ref().ok() == Some(&x) && input.is_empty(), "decode(le bytes) = {:?}, {} bytes left", dec.as_ref().map(|y| y.raw()), input.len());
                let mut with_tail = le.clone();
                with_tail.extend_from_slice(&[0xa5, 0x5a, 0xff]);
                let mut input: &[u8] = &with_tail;
                let dec = F::decode(&mut input);
                chk!(n, fails, "decode-consumes-exactly-width", dec.as_ref().ok() == Some(&x) && input == [0xa5, 0x5a, 0xff], "decode with 3 trailing bytes = {:?}, left {:02x?}", dec.as_ref().map(|y| y.raw()), input);
                for k in 0..nb {
                    let mut input: &[u8] = &le[..k];
                    let dec = F::decode(&mut input);
                    chk!(n, fails, "decode-short-input-fails", dec.is_err(), "decode of the first {} of {} bytes = {:?}", k, nb, dec.as_ref().map(|y| y.raw()));
                }
                // 2b. the same through inputs that answer differently: length unknown (remaining_len = None),
                //     length known, each delivering the bytes through read() only; io reader; decode_all
                for known in [false, true] {
                    let mut st = $crate::Stream { data: &with_tail, pos: 0, known };
                    let dec = F::decode(&mut st);
                    chk!(n, fails, "decode-from-stream", dec.as_ref().ok() == Some(&x) && st.pos == nb, "decode from a streaming input (remaining_len known: {}) with 3 trailing bytes = {:?}, consumed {} bytes", known, dec.as_ref().map(|y| y.raw()), st.pos);
                    for k in 0..nb {
                        let mut st = $crate::Stream { data: &le[..k], pos: 0, known };
                        let dec = F::decode(&mut st);
                        chk!(n, fails, "decode-short-stream-fails", dec.is_err(), "decode of the first {} of {} bytes from a streaming input (remaining_len known: {}) = {:?}", k, nb, known, dec.as_ref().map(|y| y.raw()));
                    }
                }
                {
                    use codec::DecodeAll;
                    let dec = F::decode_all(&mut &le[..]);
                    chk!(n, fails, "decode-all", dec.as_ref().ok() == Some(&x), "decode_all(le bytes) = {:?}", dec.as_ref().map(|y| y.raw()));
                    // inside containers: the element encoding is the same width/8 bytes
                    let pair = (x, 0x5au8, x);
                    let penc = pair.encode();
                    let mut expect = le.clone();
                    expect.push(0x5a);
                    expect.extend_from_slice(&le);
                    chk!(n, fails, "tuple-encoding", penc == expect, "(x, 0x5a, x).encode() = {:02x?}", penc);
                    let mut st = $crate::Stream { data: &penc, pos: 0, known: false };
                    let dec = <(F, u8, F)>::decode(&mut st);
                    chk!(n, fails, "tuple-decode-from-stream", dec.as_ref().ok() == Some(&pair), "decode of (x, 0x5a, x) from a streaming input = {:?}", dec.as_ref().map(|y| (y.0.raw(), y.1, y.2.raw())));
                    let v = vec![x, x, x];
                    let venc = v.encode();
                    let mut expect = vec![3u8 << 2];
                    for _ in 0..3 {
                        expect.extend_from_slice(&le);
                    }
                    chk!(n, fails, "vec-encoding", venc == expect, "vec![x; 3].encode() = {:02x?}", venc);
                    let dec = Vec::<F>::decode(&mut &venc[..]);
                    chk!(n, fails, "vec-decode", dec.as_ref().ok() == Some(&v), "decode of vec![x; 3] = {:?}", dec.as_ref().map(|y| y.iter().map(|e| e.raw()).collect::<Vec<_>>()));
                    let mut st = $crate::Stream { data: &venc, pos: 0, known: false };
                    let dec = Vec::<F>::decode(&mut st);
                    chk!(n, fails, "vec-decode-from-stream", dec.as_ref().ok() == Some(&v), "decode of vec![x; 3] from a streaming input = {:?}", dec.as_ref().map(|y| y.iter().map(|e| e.raw()).collect::<Vec<_>>()));
                }
                // 3. byte views
                let (tl, tb, tn) = (x.to_le_bytes(), x.to_be_bytes(), x.to_ne_bytes());
                chk!(n, fails, "to-le-bytes", tl[..] == le[..], "to_le_bytes() = {:02x?}", tl);
                chk!(n, fails, "to-be-bytes", tb[..] == be[..], "to_be_bytes() = {:02x?}", tb);
                chk!(n, fails, "to-ne-bytes", &tn[..] == if cfg!(target_endian = "little") { &le[..] } else { &be[..] }, "to_ne_bytes() = {:02x?}", tn);
                let mut al = [0u8; N];
                al.copy_from_slice(&le);
                let mut ab = [0u8; N];
                ab.copy_from_slice(&be);
                chk!(n, fails, "from-le-bytes", F::from_le_bytes(al).raw() == raw & mask(w), "from_le_bytes({:02x?}) = {:#x}", al, F::from_le_bytes(al).raw());
                chk!(n, fails, "from-be-bytes", F::from_be_bytes(ab).raw() == raw & mask(w), "from_be_bytes({:02x?}) = {:#x}", ab, F::from_be_bytes(ab).raw());
                chk!(n, fails, "from-ne-bytes", F::from_ne_bytes(tn) == x, "from_ne_bytes(to_ne_bytes(x)) = {:#x}", F::from_ne_bytes(tn).raw());
                // 4. bit views
                chk!(n, fails, "to-bits", F::raw_from_bits(x.to_bits()) == raw & mask(w), "to_bits() = {:#x}", F::raw_from_bits(x.to_bits()));
                chk!(n, fails, "from-bits-to-bits", F::from_bits(x.to_bits()) == x, "from_bits(to_bits(x)) = {:#x}", F::from_bits(x.to_bits()).raw());
                let wr = Wrapping::<F>::from_bits(bits);
                chk!(n, fails, "wrapping-bits", wr.0 == x && wr.to_bits() == bits, "Wrapping::from_bits(b).to_bits() = {}", wr.to_bits());
                // 5. serde representation {bits}
                let js = serde_json::to_string(&x).unwrap_or_else(|e| format!("error: {}", e));
                h.write(js.as_bytes());
                let want = format!("{{\"bits\":{}}}", bits);
                chk!(n, fails, "serde-json", js == want, "serde_json::to_string = {}, expected {}", js, want);
                let back: Result<F, _> = serde_json::from_str(&want);
                chk!(n, fails, "serde-json-back", back.as_ref().ok() == Some(&x), "serde_json::from_str({}) = {:?}", want, back.as_ref().map(|y| y.raw()).map_err(|e| e.to_string()));
                let jw = serde_json::to_string(&wr).unwrap_or_else(|e| format!("error: {}", e));
                chk!(n, fails, "serde-json-wrapping", jw == want, "serde_json::to_string(Wrapping) = {}, expected {}", jw, want);
                let backw: Result<Wrapping<F>, _> = serde_json::from_str(&want);
                chk!(n, fails, "serde-json-wrapping-back", backw.as_ref().ok().map(|y| y.0) == Some(x), "serde_json::from_str::<Wrapping>({}) failed or differs", want);
                // (the sequence form [bits] is accepted by the deserializer today; the property speaks only of {bits})
                (n, fails, h.finish())
            }
    };
}

macro_rules! group {
    ($g:ident: [ $( ($T:ty, $B:ident, $w:expr, $f:expr, $s:ident) ),* ]) => {
        mod $g {
            use super::*;
            define_check!();
            pub fn register(v: &mut Vec<Entry>) {
                $( v.push(Entry { l: <$T as Lay>::LAYOUT, check: check::<$T, { $w / 8 }> }); )*
            }
        }
    };
}
vcore::for_each_group!(group);
macro_rules! table {
    ($($g:ident)*) => {
        fn table() -> Vec<Entry> {
            let mut v = vec![];
            $( $g::register(&mut v); )*
            v.sort_by_key(|e| (e.l.w, !e.l.signed, e.l.frac));
            v
        }
    };
}
vcore::with_group_names!(table);

fn values(l: Layout, tier: Tier) -> Vec<u128> {
    match l.w {
        8 => alpha::all_values(8),
        16 => alpha::all_values(16),
        _ => {
            let mut v = alpha::boundary(l, tier);
            // every byte position distinguished
            v.push(0x0102_0304_0506_0708_090a_0b0c_0d0e_0f10u128 & mask(l.w));
            v.push(0xf1f2_f3f4_f5f6_f7f8_f9fa_fbfc_fdfe_ff80u128 & mask(l.w));
            for k in 0..l.w / 8 {
                v.push(0xffu128 << (8 * k));
                v.push((0x80u128 << (8 * k)) | 1);
            }
            v.sort();
            v.dedup();
            v
        }
    }
}

fn cmd_run(args: &Args) {
    let prop = args.get("prop").expect("--prop");
    let tier = Tier::parse(&args.get("tier").unwrap_or("quick".into()));
    let t0 = std::time::Instant::now();
    let tab = table();
    let c11 = prop == "C11";
    let results = run_jobs(&tab, |e| {
        let mut rep = Report::new("bytes", "", tier.name());
        let mut h = std::collections::hash_map::DefaultHasher::new();
        let mut tally = Tally::new(1);
        for &raw in &values(e.l, tier) {
            rep.states += 1;
            if raw != 0 {
                rep.nontrivial_states += 1;
            }
            match subject(|| (e.check)(raw)) {
                None => {
                    rep.transitions += 1;
                    tally.counts[0][6] += 1;
                    h.write_u128(raw);
                    h.write(b"panic");
                    if !c11 {
                        rep.violation(Violation { key: format!("{} bytes", e.l.family()), diff: "panic".into(), case: format!("bytes {} {:#x}", e.l.name(), raw), observed: "panic".into(), expected: "no panic".into(), note: String::new(), kf: None });
                    }
                }
                Some((n, fails, d)) => {
                    rep.transitions += n;
                    tally.counts[0][0] += n;
                    h.write_u128(raw);
                    h.write_u64(d);
                    if c11 {
                        continue;
                    }
                    rep.judged += n;
                    tally.judged[0] += n;
                    for (name, why) in fails {
                        rep.violation(Violation { key: format!("{} {}", e.l.family(), name), diff: name.into(), case: format!("bytes {} {:#x}", e.l.name(), raw), observed: why, expected: "the plain little-endian bytes / bits of the value".into(), note: String::new(), kf: None });
                    }
                }
            }
        }
        rep.add_tally(&e.l.class(), &["byte-and-bit-views"], &tally);
        (rep, h.finish())
    });
    let mut rep = Report::new("bytes", &prop, tier.name());
    for (e, (r, d)) in tab.iter().zip(results) {
        if c11 {
            rep.digests.insert(format!("{} all", e.l.name()), format!("{:016x}", d));
        }
        rep.merge(r);
    }
    rep.layouts = tab.len() as u64;
    for i in [3usize, 200, 505] {
        let e = &tab[i];
        let raw = values(e.l, tier)[5];
        let x = (e.check)(raw);
        rep.samples.push(format!("bytes {} {:#x}: {} sub-checks, {} failures (encode = little-endian {:02x?})", e.l.name(), raw, x.0, x.1.len(), le_bytes(raw, e.l.w)));
    }
    rep.complete_subspaces = vec!["every bit pattern of the 18 8-bit and 34 16-bit layouts".into()];
    rep.wall_s = t0.elapsed().as_secs_f64();
    rep.write(&args.get("out").expect("--out"));
    println!("bytes prop={} tier={} profile={} layouts={} states={} transitions={} judged={} mismatches={} wall={:.1}s", rep.prop, rep.tier, vcore::profile_name(), rep.layouts, rep.states, rep.transitions, rep.judged, rep.violation_counts.values().sum::<u64>(), rep.wall_s);
}

fn cmd_replay(a: &[String]) -> i32 {
    let tab = table();
    let l = Layout::parse(&a[0]).unwrap();
    let e = tab.iter().find(|e| e.l == l).unwrap();
    let raw = u128::from_str_radix(a[1].trim_start_matches("0x"), 16).unwrap();
    println!("profile:  {}", vcore::profile_name());
    println!("value:    {}::from_bits({:#x})", l.name(), raw);
    match subject(|| (e.check)(raw)) {
        None => {
            println!("observed: panic\nDIFFERS");
            1
        }
        Some((n, fails, _)) => {
            println!("sub-checks: {}", n);
            for (name, why) in &fails {
                println!("FAILED {}: {}", name, why);
            }
            if fails.is_empty() {
                println!("AGREES");
                0
            } else {
                println!("DIFFERS");
                1
            }
        }
    }
}

fn main() {
    vcore::par::install_hook();
    let args = Args::from_env();
    match args.cmd() {
        "run" => cmd_run(&args),
        "replay" => std::process::exit(cmd_replay(&args.v[1..])),
        "dump" => {
            let l = Layout::parse(&args.v[1]).unwrap();
            let tier = Tier::parse(&args.get("tier").unwrap_or("quick".into()));
            let tab = table();
            let e = tab.iter().find(|e| e.l == l).unwrap();
            for raw in values(l, tier) {
                println!("bytes {} {:#x}\t{:?}", l.name(), raw, subject(|| (e.check)(raw)).map(|x| x.2));
            }
        }
        _ => {
            eprintln!("usage: bytes run --prop C10|C11 --tier T --out FILE | replay L RAW");
            std::process::exit(2);
        }
    }
}
