//! Reference model for same-type arithmetic: one exact result R on the mathematical integers
//! (units of 2^-frac) per (operation, operands), and the overflow policy that maps R to the
//! expected outcome of each form. Never calls the subject.
use crate::ops::{Form, OpInfo};
use std::fmt;
use vcore::{Layout, Out, Z};

#[derive(Clone, Copy, PartialEq, Eq, Debug)]
pub enum Exact {
    /// exact result in units of 2^-frac
    Val(Z),
    /// divisor is zero
    DivZero,
}
impl fmt::Display for Exact {
    fn fmt(&self, f: &mut fmt::Formatter) -> fmt::Result {
        match self {
            Exact::Val(z) => write!(f, "{}", z),
            Exact::DivZero => write!(f, "division by zero"),
        }
    }
}

pub fn exact_bin(l: Layout, base: &str, a: u128, b: u128) -> Exact {
    match vcore::exact::exact_bin(l, base, a, b) {
        Some(z) => Exact::Val(z),
        None => Exact::DivZero,
    }
}

pub fn exact_un(l: Layout, base: &str, a: u128) -> Exact {
    Exact::Val(vcore::exact::exact_un(l, base, a))
}

/// Expected outcome of a form given the exact result; `None` = the properties say nothing
/// (plain form whose result is not representable; for C01 everything not representable).
pub fn expect(l: Layout, form: Form, ex: &Exact, representable_only: bool) -> Option<Out> {
    match ex {
        Exact::DivZero => {
            if representable_only {
                return None;
            }
            // a zero divisor: checked returns None; for the other forms the documented panic is permitted by
            // the properties, not required (C07 quantifies over non-zero divisors only)
            match form {
                Form::Checked => Some(Out::O(None)),
                _ => None,
            }
        }
        Exact::Val(r) => {
            let fits = l.fits(r);
            if !fits && (representable_only || form == Form::Plain) {
                return None;
            }
            Some(match form {
                Form::Checked => Out::O(if fits { Some(l.wrap(r)) } else { None }),
                Form::Saturating => Out::V(l.sat(r)),
                Form::Wrapping => Out::V(l.wrap(r)),
                Form::Overflowing => Out::P(l.wrap(r), !fits),
                Form::Plain => Out::V(l.wrap(r)),
            })
        }
    }
}

/// value_only: compare only the value part (C01 speaks about the value, C02 about the flag)
pub fn matches_exp(got: &Out, exp: &Out, value_only: bool) -> bool {
    if value_only {
        if let (Out::P(a, _), Out::P(b, _)) = (got, exp) {
            return a == b;
        }
    }
    got == exp
}

/// Cause-based classifiers of the known findings on the Euclidean division family.
/// Returns the class name if the operands fall into the cause region of a finding.
pub fn classify_kf(l: Layout, op: &OpInfo, a: u128, b: u128, _ex: &Exact) -> Option<&'static str> {
    if op.base == "div_euclid" && vcore::exact::div_euclid_truncated_quotient_overflows(l, a, b) {
        return Some(vcore::exact::KF_DIV_EUCLID);
    }
    None
}

/// Inside the cause region a mismatch belongs to the known finding only if the observed outcome is
/// exactly the behaviour the pinned tree documents; any other wrong outcome is a different failure.
pub fn classify_kf_observed(l: Layout, op: &OpInfo, a: u128, b: u128, ex: &Exact, got: &vcore::Out) -> Option<&'static str> {
    let k = classify_kf(l, op, a, b, ex)?;
    let form = match op.form {
        Form::Checked => 0,
        Form::Saturating => 1,
        Form::Wrapping => 2,
        Form::Overflowing => 3,
        Form::Plain => 4,
    };
    if *got == vcore::exact::div_euclid_legacy_outcome(l, form, a, b, vcore::CHECKED_PROFILE) {
        Some(k)
    } else {
        None
    }
}

/// oracle self-test: Z against native i128 arithmetic on the exhaustive 8-bit cube
pub fn selftest() {
    let mut n = 0u64;
    for a in -128i128..128 {
        for b in -128i128..128 {
            let (za, zb) = (Z::from_i128(a), Z::from_i128(b));
            assert_eq!(za.add(zb).to_i128(), Some(a + b));
            assert_eq!(za.sub(zb).to_i128(), Some(a - b));
            assert_eq!(za.mul(zb).to_i128(), Some(a * b));
            for f in 0..=8u32 {
                assert_eq!(za.mul(zb).shr_floor(f).to_i128(), Some((a * b) >> f));
                if b != 0 {
                    assert_eq!(za.shl(f).divrem_trunc(zb).0.to_i128(), Some((a << f) / b));
                }
            }
            if b != 0 {
                assert_eq!(za.divrem_trunc(zb).1.to_i128(), Some(a % b));
                assert_eq!(za.divrem_euclid(zb).0.to_i128(), Some(a.div_euclid(b)));
                assert_eq!(za.divrem_euclid(zb).1.to_i128(), Some(a.rem_euclid(b)));
            }
            n += 1;
        }
    }
    // wide operands against identities
    let big = [u128::MAX, 1u128 << 127, (1u128 << 127) - 1, 0x0123_4567_89ab_cdef_fedc_ba98_7654_3210, 3, 1];
    for &x in &big {
        for &y in &big {
            let (zx, zy) = (Z::from_u128(x), Z::from_u128(y));
            let p = zx.mul(zy);
            let (q, r) = p.add(Z::from_u128(y - 1)).divrem_trunc(zy);
            assert_eq!(q, zx);
            assert_eq!(r, Z::from_u128(y - 1));
            assert_eq!(p.shl(77).shr_floor(77), p);
            n += 1;
        }
    }
    println!("oracle selftest ok ({} operand pairs)", n);
}
