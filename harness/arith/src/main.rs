//! Driver `arith`: same-type unary and binary operations of all 506 layouts, every form the
//! API provides, explored over complete 8/16-bit domains and boundary alphabets, against exact
//! integer arithmetic. Serves C01, C02, C06, C07 and the C11 corpus.
#![allow(deprecated, unused_imports, dead_code)]
mod ops;
mod oracle;

use ops::*;
use oracle::*;
use std::collections::BTreeMap;
use std::hash::Hasher;
use substrate_fixed::types::extra;
use substrate_fixed::*;
use vcore::alpha::{self, Tier};
use vcore::out::diff_class;
use vcore::par::{run_jobs, subject};
use vcore::report::{Args, Report, Tally, Violation};
use vcore::{Lay, Layout, Out, Z};

pub type BinFn = fn(usize, u128, u128) -> Out;
pub type UnFn = fn(usize, u128) -> Out;
pub struct Entry {
    l: Layout,
    bin: BinFn,
    un: UnFn,
    shift: fn(usize, u128, u32) -> Out,
    fold: fn(usize, &[u128]) -> Out,
    limits: fn() -> [u128; 10],
}

macro_rules! entry {
    ($T:ty, S) => {
        Entry { l: <$T as Lay>::LAYOUT, bin: bin::<$T>, un: un_signed::<$T>, shift: shift::<$T>, fold: fold::<$T>, limits: <$T as Lay>::limits }
    };
    ($T:ty, U) => {
        Entry { l: <$T as Lay>::LAYOUT, bin: bin::<$T>, un: un::<$T>, shift: shift::<$T>, fold: fold::<$T>, limits: <$T as Lay>::limits }
    };
}
pub const SHIFT_OPS: [&str; 8] = ["checked_shl", "wrapping_shl", "overflowing_shl", "shl", "checked_shr", "wrapping_shr", "overflowing_shr", "shr"];
pub const FOLD_OPS: [&str; 4] = ["sum", "sum&", "product", "product&"];
/// shifts and iterator folds of plain fixed-point numbers: no property speaks about their values, they are
/// executed for C11 (profile independence of "all public functions") only
macro_rules! define_extra {
    () => {
        pub fn shift<F: Lay>(op: usize, a: u128, n: u32) -> Out {
            let x = F::from_raw(a);
            match op {
                0 => Out::O(x.checked_shl(n).map(|y| y.raw())),
                1 => Out::V(x.wrapping_shl(n).raw()),
                2 => {
                    let (y, o) = x.overflowing_shl(n);
                    Out::P(y.raw(), o)
                }
                3 => Out::V((x << n).raw()),
                4 => Out::O(x.checked_shr(n).map(|y| y.raw())),
                5 => Out::V(x.wrapping_shr(n).raw()),
                6 => {
                    let (y, o) = x.overflowing_shr(n);
                    Out::P(y.raw(), o)
                }
                _ => Out::V((x >> n).raw()),
            }
        }
        pub fn fold<F: Lay>(which: usize, xs: &[u128]) -> Out
        where
            F: core::iter::Sum<F> + core::iter::Product<F>,
            for<'a> F: core::iter::Sum<&'a F> + core::iter::Product<&'a F>,
        {
            let v: Vec<F> = xs.iter().map(|&a| F::from_raw(a)).collect();
            match which {
                0 => Out::V(v.iter().cloned().sum::<F>().raw()),
                1 => Out::V(v.iter().sum::<F>().raw()),
                2 => Out::V(v.iter().cloned().product::<F>().raw()),
                _ => Out::V(v.iter().product::<F>().raw()),
            }
        }
    };
}
macro_rules! group {
    ($g:ident: [ $( ($T:ty, $B:ident, $w:expr, $f:expr, $s:ident) ),* ]) => {
        mod $g {
            use super::*;
            define_ops!();
            define_extra!();
            pub fn register(v: &mut Vec<Entry>) {
                $( v.push(entry!($T, $s)); )*
            }
        }
    };
}
vcore::for_each_group!(group);
macro_rules! table {
    ($($g:ident)*) => {
        fn table() -> Vec<Entry> {
            let mut v = vec![];
            $( $g::register(&mut v); )*
            v.sort_by_key(|e| (e.l.w, !e.l.signed, e.l.frac));
            v
        }
    };
}
vcore::with_group_names!(table);

/// which (op, case) pairs a property judges
#[derive(Clone, Copy, PartialEq, Eq, Debug)]
enum Prop {
    C01,
    C02,
    C06,
    C07,
    C11,
}
impl Prop {
    fn parse(s: &str) -> Prop {
        match s {
            "C01" => Prop::C01,
            "C02" => Prop::C02,
            "C06" => Prop::C06,
            "C07" => Prop::C07,
            "C11" => Prop::C11,
            _ => panic!("arith does not serve {}", s),
        }
    }
    fn selects(&self, o: &OpInfo) -> bool {
        let handled = o.form != Form::Plain;
        match self {
            Prop::C01 => matches!(o.base, "mul" | "div"),
            // the plain forms (operators by value / by reference / assigning, `abs()`, `-x`, `signum()`) are judged
            // where the exact result is representable: they are the same operation without overflow handling
            Prop::C02 => (handled && matches!(o.base, "neg" | "abs" | "add" | "sub" | "mul" | "div" | "mul_int" | "div_int")) || (!handled && matches!(o.base, "neg" | "abs" | "signum" | "add" | "sub" | "mul_int" | "div_int")),
            Prop::C06 => matches!(o.base, "ceil" | "floor" | "round" | "round_ties_to_even" | "round_to_zero" | "int" | "frac"),
            Prop::C07 => matches!(o.base, "rem" | "rem_euclid" | "div_euclid" | "rem_int" | "rem_euclid_int" | "div_euclid_int"),
            Prop::C11 => true,
        }
    }
}

struct Job {
    ei: usize,
    /// first operands handled by this job
    a: Vec<u128>,
    /// second operands (binary ops)
    b: std::sync::Arc<Vec<u128>>,
    unary: bool,
    binary: bool,
    /// second operands of the Sum/Product folds (C11 mode): the first values of the layout's unary domain
    partners: Vec<u128>,
    /// related pairs: (first operand, its own list of second operands); used instead of `a` x `b` when non-empty
    rel: Vec<(u128, std::sync::Arc<Vec<u128>>)>,
}

struct Domain {
    un: Vec<u128>,
    /// (first operands, second operands) products
    bin: Vec<(Vec<u128>, std::sync::Arc<Vec<u128>>)>,
    /// related pairs (exact multiples and their neighbours), see `related_pairs`
    rel: Vec<(u128, std::sync::Arc<Vec<u128>>)>,
    complete_un: bool,
    complete_bin: bool,
}

/// Operand pairs that the square B x B cannot contain because the two operands are *related*: for every y of the
/// boundary alphabet and every small factor k, the exact multiple k*y (where it fits the layout) and its two
/// neighbours, paired with y in both orders. These are the pairs with an exactly representable integer quotient
/// (remainder zero, or one unit either side of it): the equality cases of every quotient-digit correction and
/// remainder comparison in the division code, and of the Euclidean / remainder sign logic.
fn related_pairs(l: Layout, ys: &[u128]) -> Vec<(u128, std::sync::Arc<Vec<u128>>)> {
    use std::collections::BTreeMap;
    use std::sync::Arc;
    let m = vcore::lay::mask(l.w);
    let ks: [i128; 12] = [2, 3, 5, 7, 10, 11, 255, 65537, -1, -2, -3, -11];
    let mut map: BTreeMap<u128, Vec<u128>> = BTreeMap::new();
    let mut order: Vec<u128> = vec![];
    let mut put = |a: u128, b: u128, map: &mut BTreeMap<u128, Vec<u128>>, order: &mut Vec<u128>| {
        let e = map.entry(a).or_insert_with(|| {
            order.push(a);
            vec![]
        });
        if !e.contains(&b) {
            e.push(b);
        }
    };
    for &y in ys {
        if y == 0 {
            continue;
        }
        // the value of y as a (sign, magnitude) pair
        let neg = l.signed && (y >> (l.w - 1)) & 1 == 1;
        let mag: u128 = if neg { y.wrapping_neg() & m } else { y };
        for &k in &ks {
            if k < 0 && !l.signed {
                continue;
            }
            let Some(pm) = mag.checked_mul(k.unsigned_abs()) else { continue };
            let pneg = neg != (k < 0);
            // fits? signed: magnitude <= 2^(w-1) - 1 (or exactly 2^(w-1) when negative); unsigned: <= mask
            let lim = if l.signed { (1u128 << (l.w - 1)) - 1 + pneg as u128 } else { m };
            if pm > lim {
                continue;
            }
            let p = if pneg { pm.wrapping_neg() & m } else { pm };
            for d in [0u128, 1, m] {
                // p, p + 1, p - 1 (wrapping inside the width; a wrapped neighbour is just another operand)
                let a = p.wrapping_add(d) & m;
                put(a, y, &mut map, &mut order);
                put(y, a, &mut map, &mut order);
            }
        }
    }
    order.into_iter().map(|a| (a, Arc::new(map.remove(&a).unwrap()))).collect()
}

/// Powers of two at *every* exponent (the quick boundary alphabet only has every (w/16)-th): P = +-(2^k + {-1, 0, 1})
/// for all k, paired in both orders with (i) a short list S of essential partners and (ii) the powers of two at
/// which the product or quotient sits on the type's overflow or underflow boundary (2^(i+j-f) next to 2^(w-1) or
/// to one ulp; 2^(i-j+f) likewise). A defect confined to a band of leading-zero counts, shift amounts or
/// normalisation distances in the middle of the range needs one of these.
fn power_pairs(l: Layout, b: &[u128]) -> (Vec<u128>, Vec<(u128, std::sync::Arc<Vec<u128>>)>) {
    use std::sync::Arc;
    let (w, f) = (l.w as i64, l.frac as i64);
    let m = vcore::lay::mask(l.w);
    let inb: std::collections::HashSet<u128> = b.iter().cloned().collect();
    let pow = |k: i64| -> Option<u128> { if k >= 0 && k < w { Some(1u128 << k) } else { None } };
    let mut ps: Vec<(i64, u128)> = vec![];
    let mut seen = std::collections::HashSet::new();
    for k in 0..w {
        for d in [0u128, 1, m] {
            for x in [(1u128 << k).wrapping_add(d) & m, ((1u128 << k).wrapping_add(d)).wrapping_neg() & m] {
                if !inb.contains(&x) && seen.insert(x) {
                    ps.push((k, x));
                }
            }
        }
    }
    let hw = l.w / 2;
    let one = if l.frac < l.w { 1u128 << l.frac } else { 0 };
    let mut s: Vec<u128> = vec![1, m, 2, 3, one, one.wrapping_add(1), one.wrapping_sub(1) & m, one >> 1, l.max_raw(), l.max_raw() - 1, l.min_raw(), l.min_raw().wrapping_add(1) & m, vcore::lay::mask(hw), vcore::lay::mask(hw) << hw, 1u128 << hw, 0x5555_5555_5555_5555_5555_5555_5555_5555 & m, 0xdead_beef_cafe_f00d_1234_5678_9abc_def1u128 >> (128 - l.w), 10, 7u128.wrapping_neg() & m];
    s.sort();
    s.dedup();
    s.retain(|x| *x != 0);
    let s = Arc::new(s);
    let mut rel: Vec<(u128, Arc<Vec<u128>>)> = vec![];
    let pvals: Vec<u128> = ps.iter().map(|p| p.1).collect();
    for &(k, x) in &ps {
        let mut partners: Vec<u128> = s.to_vec();
        for j0 in [w - 1 + f - k, f - k, k + f - (w - 1), k + f, w - 2 + f - k] {
            for dj in [-1i64, 0, 1] {
                if let Some(q) = pow(j0 + dj) {
                    for y in [q, q.wrapping_neg() & m, q.wrapping_sub(1) & m, q.wrapping_add(1) & m] {
                        if y != 0 && !partners.contains(&y) {
                            partners.push(y);
                        }
                    }
                }
            }
        }
        rel.push((x, Arc::new(partners)));
    }
    let pv = Arc::new(pvals.clone());
    for &y in s.iter() {
        rel.push((y, pv.clone()));
    }
    (pvals, rel)
}

/// `c11`: the profile-independence pass executes every case twice (and every permitted overflow costs a caught
/// panic in the checking build), so its thorough domain is thinner where the full one is most expensive: the
/// 16-bit binary domain is V16 x B_quick and the 128-bit one B_quick x B_quick. The full thorough
/// domains run in both builds under C01/C02/C06/C07. `VERIF_C11_FULL=1` restores them here.
/// Operand pairs constructed from the *intermediate values* of the 128-bit algorithms (w = 128 only):
/// (i) multiplication: for a few left operands a = (lh, ll) and right low halves rl, the right high half rh that puts the
///     sum of the two cross products lh*rl + ll*rh just below / just above a multiple of 2^128 (the carry out of the
///     middle column), and for squares the lh that does the same for 2*lh*ll, with every sign combination;
/// (ii) division: dividends built from a chosen quotient q (half-digits 0, 1, B/2, B-1, B-2 ...) and a divisor whose low
///     half exceeds its high half, a = floor(q*b / 2^f) + {0, 1}: quotient digits at the top of their range, where the
///     digit estimate of the long division is B or B+1 and has to be taken back once or twice.
fn constructed_pairs(l: Layout) -> Vec<(u128, std::sync::Arc<Vec<u128>>)> {
    use std::sync::Arc;
    let mut out: Vec<(u128, Arc<Vec<u128>>)> = vec![];
    if l.w != 128 {
        return out;
    }
    let m = vcore::lay::mask(128);
    let b64 = Z::pow2(64);
    let lows: [u128; 6] = [0xffff_ffff_ffff_ffff, 0xffff_ffff_ffff_fffd, 0x8000_0000_0000_0001, 0xdead_beef_cafe_f00d, 0x5555_5555_5555_5555, 0xffff_ffff_fdb9_7532];
    let signs = |x: u128| -> Vec<u128> { if l.signed { vec![x, x.wrapping_neg() & m] } else { vec![x] } };
    // (i) squares: 2*lh*ll just below k*2^128
    for &ll in &lows {
        for k in 1u64..=6 {
            let lh = Z::pow2(127).mul_small(k).divrem_trunc(Z::from_u128(ll)).0;
            for d in [0i128, 1, -1] {
                let lhd = lh.add(Z::from_i128(d));
                if lhd.is_neg() || !lhd.lt(&b64) {
                    continue;
                }
                let a = (lhd.low128() << 64) | ll;
                for x in signs(a) {
                    out.push((x, Arc::new(signs(a))));
                }
            }
        }
    }
    // (i) general: lh*rl + ll*rh next to k*2^128
    let lefts: [u128; 4] = [0x8000_0000_0123_4567_ffff_ffff_fdb9_7532, 0xdead_beef_cafe_f00d_1234_5678_9abc_def1, 0x7fff_ffff_ffff_ffff_8000_0000_0000_0001, 0x0123_4567_89ab_cdef_fedc_ba98_7654_3211];
    for &a in &lefts {
        let (lh, ll) = (a >> 64, a & 0xffff_ffff_ffff_ffff);
        let mut partners = vec![];
        for &rl in &lows {
            for k in 1u64..=3 {
                let t = Z::pow2(128).mul_small(k).sub(Z::from_u128(lh).mul(Z::from_u128(rl)));
                if t.is_neg() {
                    continue;
                }
                let rh = t.divrem_trunc(Z::from_u128(ll)).0;
                for d in [0i128, 1] {
                    let r = rh.add(Z::from_i128(d));
                    if !r.is_neg() && r.lt(&b64) {
                        partners.extend(signs((r.low128() << 64) | rl));
                    }
                }
            }
        }
        let partners = Arc::new(partners);
        for x in signs(a) {
            out.push((x, partners.clone()));
        }
    }
    // (ii) division: constructed quotients over divisors with lo > hi
    let hm: u128 = 0xffff_ffff_ffff_ffff;
    let digits: [u128; 6] = [0, 1, hm >> 1, (hm >> 1) + 1, hm, hm - 1];
    let divisors: [u128; 6] = [
        0x0000_0000_0000_000d_0000_0000_0000_0000,
        0x9e37_79b9_7f4a_7c15_f39c_c060_5ced_c834,
        0x0000_0000_0000_0001_ffff_ffff_ffff_ffff,
        0x0000_0000_dead_beef_ffff_ffff_0000_0001,
        0x7fff_ffff_ffff_fffe_ffff_ffff_ffff_ffff,
        0x0000_0000_0000_0003_0000_0000_0000_0005,
    ];
    let top = if l.signed { 127 } else { 128 };
    for &b in &divisors {
        for sh in [0u32, 1, 30, 62] {
            let bz = Z::from_u128(b >> sh);
            if bz.is_zero() || !bz.lt(&Z::pow2(top)) {
                continue;
            }
            let mut dividends = vec![];
            for &qh in &digits {
                for &ql in &digits {
                    let q = Z::from_u128((qh << 64) | ql);
                    // a * 2^f / b ~ q  <=>  a ~ q * b / 2^f
                    let a0 = q.mul(bz).shr_floor(l.frac);
                    for d in [0i128, 1] {
                        let a = a0.add(Z::from_i128(d));
                        if !a.is_zero() && a.lt(&Z::pow2(top)) {
                            dividends.push(a.low128());
                        }
                    }
                }
            }
            dividends.sort();
            dividends.dedup();
            let bs = Arc::new(signs(bz.low128()));
            for a in dividends {
                for x in signs(a) {
                    out.push((x, bs.clone()));
                }
            }
        }
    }
    out
}

fn domain(l: Layout, tier: Tier, c11: bool) -> Domain {
    use std::sync::Arc;
    let thin = c11 && tier == Tier::Thorough && std::env::var("VERIF_C11_FULL").is_err();
    let btier = if thin && (l.w == 16 || l.w == 128) { Tier::Quick } else { tier };
    match l.w {
        8 => {
            let v = alpha::all_values(8);
            Domain { un: v.clone(), bin: vec![(v.clone(), Arc::new(v))], rel: vec![], complete_un: true, complete_bin: true }
        }
        16 => {
            let v = alpha::all_values(16);
            let b = alpha::boundary(l, btier);
            let bin = match tier {
                Tier::Quick => vec![(b.clone(), Arc::new(b))],
                Tier::Thorough if thin => vec![(v.clone(), Arc::new(b))],
                Tier::Thorough => {
                    let rest: Vec<u128> = {
                        let s: std::collections::HashSet<u128> = b.iter().cloned().collect();
                        v.iter().cloned().filter(|x| !s.contains(x)).collect()
                    };
                    // V16 x B  and  (B x (V16 \ B)): together V16xB u BxV16 without repetition
                    vec![(v.clone(), Arc::new(b.clone())), (b, Arc::new(rest))]
                }
            };
            let rel = related_pairs(l, &alpha::boundary(l, Tier::Quick));
            Domain { un: v, bin, rel, complete_un: true, complete_bin: false }
        }
        _ => {
            let b = alpha::boundary(l, btier);
            let mut un = alpha::boundary(l, tier);
            let seen: std::collections::HashSet<u128> = un.iter().cloned().collect();
            let mut seen = seen;
            for x in alpha::float_runs(l, tier) {
                if seen.insert(x) {
                    un.push(x);
                }
            }
            // rounding ties at every integer part of the alphabet: the value with its fractional field forced to
            // exactly one half, and one unit either side (parity of arbitrary, also very large, integer parts)
            if l.frac >= 1 && l.frac < l.w {
                let m = vcore::lay::mask(l.w);
                let fmask = (1u128 << l.frac) - 1;
                let half = 1u128 << (l.frac - 1);
                for &v in &alpha::boundary(l, tier) {
                    let t = (v & !fmask & m) | half;
                    for x in [t, t.wrapping_add(1) & m, t.wrapping_sub(1) & m] {
                        if seen.insert(x) {
                            un.push(x);
                        }
                    }
                }
            }
            let mut rel = related_pairs(l, &b);
            rel.extend(constructed_pairs(l));
            if btier == Tier::Quick {
                let (pv, prel) = power_pairs(l, &b);
                rel.extend(prel);
                for x in pv {
                    if seen.insert(x) {
                        un.push(x);
                    }
                }
            }
            Domain { un, bin: vec![(b.clone(), Arc::new(b))], rel, complete_un: false, complete_bin: false }
        }
    }
}

struct JobOut {
    rep: Report,
    /// per op index (unary first, then binary) digest state
    dig: Vec<u64>,
    /// C11: permitted cases that returned in this build: (case, value)
    returned: Vec<(String, Out)>,
}

fn case_un(l: Layout, op: &OpInfo, a: u128) -> String {
    format!("arith {} {} {:#x}", l.name(), op.name, a)
}
fn case_bin(l: Layout, op: &OpInfo, a: u128, b: u128) -> String {
    format!("arith {} {} {:#x} {:#x}", l.name(), op.name, a, b)
}

fn run_job(tab: &[Entry], job: &Job, prop: Prop, tier: Tier) -> JobOut {
    let e = &tab[job.ei];
    let l = e.l;
    let nun = UN_OPS.len();
    let nbin = BIN_OPS.len();
    let mut rep = Report::new("arith", "", tier.name());
    let mut tally = Tally::new(nun + nbin);
    let mut dig: Vec<std::collections::hash_map::DefaultHasher> = (0..nun + nbin).map(|_| std::collections::hash_map::DefaultHasher::new()).collect();
    let mut returned = vec![];
    let mut xdig: Vec<std::collections::hash_map::DefaultHasher> = (0..12).map(|_| std::collections::hash_map::DefaultHasher::new()).collect();
    let sel_un: Vec<bool> = UN_OPS.iter().map(|o| prop.selects(o) && (!o.signed_only || l.signed)).collect();
    let sel_bin: Vec<bool> = BIN_OPS.iter().map(|o| prop.selects(o)).collect();
    let c11 = prop == Prop::C11;
    let mut states = 0u64;
    let mut nontrivial = 0u64;
    let mut transitions = 0u64;
    let mut judged = 0u64;
    let items: Vec<(u128, &[u128])> = if job.rel.is_empty() { job.a.iter().map(|&a| (a, &job.b[..])).collect() } else { job.rel.iter().map(|(a, bs)| (*a, &bs[..])).collect() };
    for (a, bs) in items {
        if job.unary && prop == Prop::C02 {
            // `Sum` (owned and by reference) is addition through an iterator: [a] sums to a, [a, b] to a + b where
            // that is representable, the empty sum is 0
            states += 1;
            let mut seqs: Vec<(Vec<u128>, Z)> = vec![(vec![a], l.z(a))];
            for &b in job.partners.iter().chain([a, l.max_raw(), l.min_raw(), l.max_raw() >> (l.w / 2)].iter()) {
                seqs.push((vec![a, b], l.z(a).add(l.z(b))));
                seqs.push((vec![b, a], l.z(a).add(l.z(b))));
            }
            if a == 0 {
                seqs.push((vec![], Z::ZERO));
            }
            for (xs, exact) in seqs {
                if !l.fits(&exact) {
                    continue;
                }
                let exp = Out::V(l.wrap(&exact));
                for which in 0..2 {
                    let got = subject(|| (e.fold)(which, &xs)).unwrap_or(Out::Panic);
                    transitions += 1;
                    judged += 1;
                    *rep.extra.entry("sum_folds_judged".into()).or_default() += 1;
                    if got != exp {
                        rep.violation(Violation {
                            key: format!("{} {}", l.class(), FOLD_OPS[which]),
                            diff: if got == Out::Panic { "unexpected-panic".into() } else { "value".into() },
                            case: format!("arith {} {} {}", l.name(), FOLD_OPS[which], xs.iter().map(|x| format!("{:#x}", x)).collect::<Vec<_>>().join(" ")),
                            observed: got.to_string(),
                            expected: exp.to_string(),
                            note: format!("sum of the sequence {:x?} through core::iter::Sum; exact={}", xs, exact),
                            kf: None,
                        });
                    }
                }
            }
        }
        if job.unary && prop == Prop::C01 {
            // `Product` (owned and by reference) is multiplication through an iterator: the product of the one-element
            // sequence [a] is a, that of [a, b] is floor(a * b / 2^frac) whenever that is representable (one
            // multiplication, so no association order is presumed), the empty product is 1 where the type holds 1.
            // Types without a representable 1 are the point: a fold that starts from 1 is wrong for all of them.
            states += 1;
            let mut seqs: Vec<(Vec<u128>, Z)> = vec![(vec![a], l.z(a))];
            for &b in job.partners.iter().chain([a, l.max_raw(), l.min_raw(), l.max_raw() >> (l.w / 2)].iter()) {
                seqs.push((vec![a, b], l.z(a).mul(l.z(b)).shr_floor(l.frac)));
                seqs.push((vec![b, a], l.z(a).mul(l.z(b)).shr_floor(l.frac)));
            }
            if a == 0 && l.int_bits() > l.signed as u32 {
                seqs.push((vec![], Z::pow2(l.frac)));
            }
            for (xs, exact) in seqs {
                if !l.fits(&exact) {
                    continue;
                }
                let exp = Out::V(l.wrap(&exact));
                for which in 2..4 {
                    let got = subject(|| (e.fold)(which, &xs)).unwrap_or(Out::Panic);
                    transitions += 1;
                    judged += 1;
                    *rep.extra.entry("product_folds_judged".into()).or_default() += 1;
                    if got != exp {
                        rep.violation(Violation {
                            key: format!("{} {}", l.class(), FOLD_OPS[which]),
                            diff: if got == Out::Panic { "unexpected-panic".into() } else { "value".into() },
                            case: format!("arith {} {} {}", l.name(), FOLD_OPS[which], xs.iter().map(|x| format!("{:#x}", x)).collect::<Vec<_>>().join(" ")),
                            observed: got.to_string(),
                            expected: exp.to_string(),
                            note: format!("product of the sequence {:x?} through core::iter::Product; exact={}", xs, exact),
                            kf: None,
                        });
                    }
                }
            }
        }
        if job.unary && sel_un.iter().any(|&x| x) {
            states += 1;
            let mut any = false;
            let mut cache: Option<(&str, Exact)> = None;
            for (i, op) in UN_OPS.iter().enumerate() {
                if !sel_un[i] {
                    continue;
                }
                if (op.base == "int" || op.base == "frac") && l.int_bits() == 0 {
                    // the property speaks about int/frac only for types with an integer bit
                    continue;
                }
                let ex = match cache {
                    Some((bs, r)) if bs == op.base => r,
                    _ => {
                        let r = exact_un(l, op.base, a);
                        cache = Some((op.base, r));
                        r
                    }
                };
                let exp = expect(l, op.form, &ex, prop == Prop::C01);
                if exp.is_none() && !c11 {
                    continue;
                }
                let got = subject(|| (e.un)(i, a)).unwrap_or(Out::Panic);
                transitions += 1;
                tally.counts[i][got.class()] += 1;
                if c11 {
                    if exp.is_none() {
                        if vcore::CHECKED_PROFILE && got != Out::Panic {
                            returned.push((case_un(l, op, a), got));
                        }
                    } else {
                        dig[i].write_u128(a);
                        got.feed(&mut dig[i]);
                    }
                    continue;
                }
                let Some(exp) = exp else { continue };
                judged += 1;
                tally.judged[i] += 1;
                any = true;
                if !matches_exp(&got, &exp, prop == Prop::C01) {
                    rep.violation(Violation {
                        key: format!("{} {}", l.class(), op.name),
                        diff: diff_class(&got, &exp).into(),
                        case: case_un(l, op, a),
                        observed: got.to_string(),
                        expected: exp.to_string(),
                        note: format!("exact={}", ex),
                        kf: classify_kf(l, op, a, 0, &ex),
                    });
                }
            }
            if any && a != 0 {
                nontrivial += 1;
            }
            if c11 {
                // shifts: handled forms with every amount; the plain operators only with amounts below the width
                // (beyond it they are operations without overflow handling: a profile-dependent panic is permitted)
                for n in [0u32, 1, l.w / 2, l.w - 1, l.w, l.w + 1, 2 * l.w, u32::MAX] {
                    for (i, name) in SHIFT_OPS.iter().enumerate() {
                        if (i == 3 || i == 7) && n >= l.w {
                            continue;
                        }
                        let got = subject(|| (e.shift)(i, a, n)).unwrap_or(Out::Panic);
                        transitions += 1;
                        let _ = name;
                        xdig[i].write_u128(a);
                        xdig[i].write_u32(n);
                        got.feed(&mut xdig[i]);
                    }
                }
                // Sum / Product over short sequences whose partial results are all representable
                for &b in job.partners.iter() {
                    let xs = [a, b, a];
                    let s1 = l.z(a).add(l.z(b));
                    let s2 = s1.add(l.z(a));
                    let p1 = l.z(a).mul(l.z(b)).shr_floor(l.frac);
                    let p2 = if l.fits(&p1) { l.z(l.wrap(&p1)).mul(l.z(a)).shr_floor(l.frac) } else { p1 };
                    for which in 0..4 {
                        let ok = if which < 2 { l.fits(&s1) && l.fits(&s2) } else { l.fits(&p1) && l.fits(&p2) };
                        if !ok {
                            continue;
                        }
                        let got = subject(|| (e.fold)(which, &xs)).unwrap_or(Out::Panic);
                        transitions += 1;
                        xdig[8 + which].write_u128(a);
                        xdig[8 + which].write_u128(b);
                        got.feed(&mut xdig[8 + which]);
                    }
                }
            }
        }
        if job.binary && sel_bin.iter().any(|&x| x) {
            for &b in bs.iter() {
                states += 1;
                let mut any = false;
                let mut cache: Option<(&str, Exact)> = None;
                for (i, op) in BIN_OPS.iter().enumerate() {
                    if !sel_bin[i] {
                        continue;
                    }
                    let ex = match cache {
                        Some((bs, r)) if bs == op.base => r,
                        _ => {
                            let r = exact_bin(l, op.base, a, b);
                            cache = Some((op.base, r));
                            r
                        }
                    };
                    let exp = expect(l, op.form, &ex, prop == Prop::C01);
                    if exp.is_none() && !c11 {
                        continue;
                    }
                    let kf = if c11 { classify_kf(l, op, a, b, &ex) } else { None };
                    let permitted = exp.is_none() || (op.form == Form::Plain && kf.is_some());
                    if c11 && permitted && l.w > 8 && (op.name.contains('@') || (tier == Tier::Quick && !alpha::frac_star(l.w).contains(&l.frac))) {
                        // permitted-panic cases cost a caught panic each in the checking build: the by-reference /
                        // assigning forwarders only on the 8-bit layouts, and in the quick tier only the boundary
                        // fractional-bit counts of the wider families
                        continue;
                    }
                    let got = subject(|| (e.bin)(i, a, b)).unwrap_or(Out::Panic);
                    transitions += 1;
                    tally.counts[nun + i][got.class()] += 1;
                    if c11 {
                        if permitted {
                            if vcore::CHECKED_PROFILE && got != Out::Panic {
                                returned.push((case_bin(l, op, a, b), got));
                            }
                        } else {
                            dig[nun + i].write_u128(a);
                            dig[nun + i].write_u128(b);
                            got.feed(&mut dig[nun + i]);
                        }
                        continue;
                    }
                    let Some(exp) = exp else { continue };
                    judged += 1;
                    tally.judged[nun + i] += 1;
                    any = true;
                    if !matches_exp(&got, &exp, prop == Prop::C01) {
                        rep.violation(Violation {
                            key: format!("{} {}", l.class(), op.name),
                            diff: diff_class(&got, &exp).into(),
                            case: case_bin(l, op, a, b),
                            observed: got.to_string(),
                            expected: exp.to_string(),
                            note: format!("exact={}", ex),
                            kf: classify_kf_observed(l, op, a, b, &ex, &got),
                        });
                    }
                }
                if any && (a != 0 || b != 0) {
                    nontrivial += 1;
                }
            }
        }
    }
    let names: Vec<&str> = UN_OPS.iter().chain(BIN_OPS.iter()).map(|o| o.name).collect();
    rep.add_tally(&l.class(), &names, &tally);
    rep.states = states;
    rep.nontrivial_states = nontrivial;
    rep.transitions = transitions;
    rep.judged = judged;
    JobOut { rep, dig: dig.into_iter().chain(xdig.into_iter()).map(|h| h.finish()).collect(), returned }
}

fn build_jobs(tab: &[Entry], tier: Tier, only: Option<&str>, c11: bool) -> (Vec<Job>, Vec<String>) {
    let mut jobs = vec![];
    let mut notes = vec![];
    let mut complete8 = 0;
    let mut complete16 = 0;
    for (ei, e) in tab.iter().enumerate() {
        if let Some(o) = only {
            if !(o == e.l.name() || o == e.l.family() || o == format!("w{}", e.l.w)) {
                continue;
            }
        }
        let d = domain(e.l, tier, c11);
        if d.complete_bin {
            complete8 += 1;
        }
        if d.complete_un {
            complete16 += 1;
        }
        let empty = std::sync::Arc::new(vec![]);
        // unary: chunks of 8192 first operands
        for ch in d.un.chunks(8192) {
            jobs.push(Job { ei, a: ch.to_vec(), b: empty.clone(), unary: true, binary: false, partners: d.un.iter().cloned().take(6).collect(), rel: vec![] });
        }
        for (av, bv) in &d.bin {
            // aim at <= 2^16 pairs per job
            let per = (65536 / bv.len().max(1)).max(1);
            for ch in av.chunks(per) {
                jobs.push(Job { ei, a: ch.to_vec(), b: bv.clone(), unary: false, binary: true, partners: vec![], rel: vec![] });
            }
        }
        for ch in d.rel.chunks(4096) {
            jobs.push(Job { ei, a: vec![], b: empty.clone(), unary: false, binary: true, partners: vec![], rel: ch.to_vec() });
        }
    }
    notes.push(format!("{} layouts with all operand pairs enumerated (8-bit); {} layouts with all single operands enumerated (8/16-bit)", complete8, complete16));
    (jobs, notes)
}

fn cmd_run(args: &Args) {
    let prop = Prop::parse(&args.get("prop").expect("--prop"));
    let tier = Tier::parse(&args.get("tier").unwrap_or("quick".into()));
    let out = args.get("out").expect("--out");
    let only = args.get("only");
    let t0 = std::time::Instant::now();
    let tab = table();
    assert_eq!(tab.len(), 506);
    let (jobs, notes) = build_jobs(&tab, tier, only.as_deref(), prop == Prop::C11);
    let results = run_jobs(&jobs, |j| run_job(&tab, j, prop, tier));
    let mut rep = Report::new("arith", &args.get("prop").unwrap(), tier.name());
    rep.notes = notes;
    if prop == Prop::C02 {
        // the bounds every saturating form clamps to, and the layout constants, as the library itself reports them
        // (inherent items and `Fixed` trait items)
        for e in &tab {
            let l = e.l;
            let got = subject(|| (e.limits)());
            let exp = [l.int_bits() as u128, l.frac as u128, l.int_bits() as u128, l.frac as u128, l.min_raw(), l.max_raw(), l.int_bits() as u128, l.frac as u128, l.min_raw(), l.max_raw()];
            rep.transitions += 10;
            rep.judged += 10;
            if got != Some(exp) {
                rep.violation(Violation {
                    key: format!("{} limits", l.class()),
                    diff: "limits".into(),
                    case: format!("arith {} limits", l.name()),
                    observed: format!("{:x?}", got),
                    expected: format!("{:x?}", exp),
                    note: "[INT_NBITS, FRAC_NBITS, int_nbits(), frac_nbits(), min_value bits, max_value bits] inherent, then the four functions through the Fixed trait".into(),
                    kf: None,
                });
            }
        }
    }
    let mut digs: BTreeMap<(usize, usize), std::collections::hash_map::DefaultHasher> = BTreeMap::new();
    let mut returned: Vec<(String, Out)> = vec![];
    let mut layouts = std::collections::BTreeSet::new();
    for (j, r) in jobs.iter().zip(results) {
        layouts.insert(j.ei);
        if rep.samples.len() < 24 && !r.rep.blocks.is_empty() {
            let l = tab[j.ei].l;
            if let Some(&a) = j.a.last() {
                if j.binary {
                    let b = *j.b.last().unwrap();
                    let op = BIN_OPS.iter().find(|o| prop.selects(o));
                    if let Some(op) = op {
                        let ex = exact_bin(l, op.base, a, b);
                        let got = subject(|| (tab[j.ei].bin)(BIN_OPS.iter().position(|o| o.name == op.name).unwrap(), a, b)).unwrap_or(Out::Panic);
                        rep.samples.push(format!("{} -> {} (exact {})", case_bin(l, op, a, b), got, ex));
                    }
                } else {
                    let op = UN_OPS.iter().enumerate().find(|(_, o)| prop.selects(o) && (!o.signed_only || l.signed));
                    if let Some((i, op)) = op {
                        let ex = exact_un(l, op.base, a);
                        let got = subject(|| (tab[j.ei].un)(i, a)).unwrap_or(Out::Panic);
                        rep.samples.push(format!("{} -> {} (exact {})", case_un(l, op, a), got, ex));
                    }
                }
            }
        }
        for (i, d) in r.dig.iter().enumerate() {
            digs.entry((j.ei, i)).or_insert_with(std::collections::hash_map::DefaultHasher::new).write_u64(*d);
        }
        returned.extend(r.returned);
        rep.merge(r.rep);
    }
    rep.layouts = layouts.len() as u64;
    if prop == Prop::C11 {
        let names: Vec<&str> = UN_OPS.iter().chain(BIN_OPS.iter()).map(|o| o.name).chain(SHIFT_OPS.iter().cloned()).chain(FOLD_OPS.iter().cloned()).collect();
        for ((ei, i), h) in digs {
            rep.digests.insert(format!("{} {}", tab[ei].l.name(), names[i]), format!("{:016x}", h.finish()));
        }
        if let Some(p) = args.get("returned-out") {
            let mut s = String::new();
            for (c, o) in &returned {
                s.push_str(&format!("{}\t{}\n", c, o));
            }
            std::fs::write(p, s).unwrap();
        }
        rep.extra.insert("permitted_cases_returned_in_this_build".into(), returned.len() as u64);
    }
    let complete = match tier {
        _ => vec![
            "all 65536 operand pairs and all 256 single operands of each of the 18 8-bit layouts".to_string(),
            "all 65536 single operands of each of the 34 16-bit layouts (unary operations)".to_string(),
        ],
    };
    rep.complete_subspaces = complete;
    rep.wall_s = t0.elapsed().as_secs_f64();
    rep.write(&out);
    println!(
        "arith prop={} tier={} profile={} layouts={} states={} transitions={} judged={} mismatches={} wall={:.1}s",
        rep.prop,
        rep.tier,
        vcore::profile_name(),
        rep.layouts,
        rep.states,
        rep.transitions,
        rep.judged,
        rep.violation_counts.values().sum::<u64>(),
        rep.wall_s
    );
}

fn find_op(name: &str) -> Option<(bool, usize, &'static OpInfo)> {
    if let Some((i, o)) = UN_OPS.iter().enumerate().find(|(_, o)| o.name == name) {
        // unary names are unique except "neg" (plain, signed); fine: first match by exact name
        return Some((true, i, o));
    }
    BIN_OPS.iter().enumerate().find(|(_, o)| o.name == name).map(|(i, o)| (false, i, o))
}

fn parse_hex(s: &str) -> u128 {
    u128::from_str_radix(s.trim_start_matches("0x"), 16).expect("hex operand")
}

/// `arith replay <layout> <op> <a> [<b>]`: execute one call, print observed / expected.
/// Exit code 1 if the observed outcome differs from what the reference model expects.
fn cmd_replay(args: &[String]) -> i32 {
    let l = Layout::parse(&args[0]).expect("layout");
    let tab = table();
    let e = tab.iter().find(|e| e.l == l).expect("layout not found");
    if args[1] == "limits" {
        let got = subject(|| (e.limits)());
        let exp = [l.int_bits() as u128, l.frac as u128, l.int_bits() as u128, l.frac as u128, l.min_raw(), l.max_raw(), l.int_bits() as u128, l.frac as u128, l.min_raw(), l.max_raw()];
        println!("profile:  {}\ncall:     {} INT_NBITS FRAC_NBITS int_nbits() frac_nbits() min_value() max_value() (inherent, then Fixed trait)\nobserved: {:x?}\nexpected: {:x?}", vcore::profile_name(), l.name(), got, exp);
        let ok = got == Some(exp);
        println!("{}", if ok { "AGREES" } else { "DIFFERS" });
        return if ok { 0 } else { 1 };
    }
    if let Some(i) = SHIFT_OPS.iter().position(|n| *n == args[1]) {
        let got = subject(|| (e.shift)(i, parse_hex(&args[2]), args[3].parse().unwrap())).unwrap_or(Out::Panic);
        println!("profile:  {}\ncall:     {} {} {} {}\nobserved: {}\n(no property states a value for shifts of plain fixed-point numbers; compare the two profiles)", vcore::profile_name(), l.name(), args[1], args[2], args[3], got);
        return 0;
    }
    if let Some(which) = FOLD_OPS.iter().position(|n| *n == args[1]) {
        let xs: Vec<u128> = args[2..].iter().map(|s| parse_hex(s)).collect();
        let got = subject(|| (e.fold)(which, &xs)).unwrap_or(Out::Panic);
        println!("profile:  {}\ncall:     {} {} {:x?}\nobserved: {}", vcore::profile_name(), l.name(), args[1], xs, got);
        if xs.len() <= 2 {
            let exact = match (xs.len(), which >= 2) {
                (0, true) => Z::pow2(l.frac),
                (0, false) => Z::ZERO,
                (1, _) => l.z(xs[0]),
                (_, true) => l.z(xs[0]).mul(l.z(xs[1])).shr_floor(l.frac),
                (_, false) => l.z(xs[0]).add(l.z(xs[1])),
            };
            if l.fits(&exact) {
                let exp = Out::V(l.wrap(&exact));
                println!("expected: {} (exact {})", exp, exact);
                if got != exp {
                    println!("DIFFERS");
                    return 1;
                }
                println!("AGREES");
                return 0;
            }
        }
        println!("(no value is specified for this fold; compare the two profiles)");
        return 0;
    }
    let (unary, i, op) = find_op(&args[1]).expect("unknown op");
    let a = parse_hex(&args[2]);
    let (got, ex, kf) = if unary {
        let ex = exact_un(l, op.base, a);
        (subject(|| (e.un)(i, a)).unwrap_or(Out::Panic), ex, classify_kf(l, op, a, 0, &ex))
    } else {
        let b = parse_hex(&args[3]);
        let ex = exact_bin(l, op.base, a, b);
        { let g = subject(|| (e.bin)(i, a, b)).unwrap_or(Out::Panic); (g, ex, classify_kf_observed(l, op, a, b, &ex, &g)) }
    };
    let exp = expect(l, op.form, &ex, false);
    println!("profile:  {}", vcore::profile_name());
    println!("call:     {} {} {}", l.name(), op.name, args[2..].join(" "));
    println!("exact:    {}", ex);
    println!("observed: {}", got);
    match exp {
        Some(exp) => {
            println!("expected: {}", exp);
            if let Some(k) = kf {
                println!("known-finding class: {}", k);
            }
            if got == exp {
                println!("AGREES");
                0
            } else {
                println!("DIFFERS ({})", diff_class(&got, &exp));
                1
            }
        }
        None => {
            println!("expected: (unspecified: plain form whose exact result is not representable)");
            0
        }
    }
}

/// `arith recheck <file>`: C11 second pass. Each line is `<case>\t<outcome in the other build>`;
/// re-execute the case in this build and require the identical outcome.
fn cmd_recheck(path: &str, out: &str) {
    let tab = table();
    let text = std::fs::read_to_string(path).expect("recheck file");
    let mut rep = Report::new("arith", "C11", "recheck");
    for line in text.lines() {
        let (case, other) = line.split_once('\t').expect("bad recheck line");
        let p: Vec<&str> = case.split_whitespace().collect();
        let l = Layout::parse(p[1]).unwrap();
        let e = tab.iter().find(|e| e.l == l).unwrap();
        let (unary, i, op) = find_op(p[2]).unwrap();
        let a = parse_hex(p[3]);
        let got = if unary { subject(|| (e.un)(i, a)).unwrap_or(Out::Panic) } else { subject(|| (e.bin)(i, a, parse_hex(p[4]))).unwrap_or(Out::Panic) };
        rep.transitions += 1;
        rep.judged += 1;
        if got.to_string() != other {
            rep.violation(Violation {
                key: format!("{} {}", l.class(), op.name),
                diff: "profile-dependent".into(),
                case: case.to_string(),
                observed: format!("{}: {}", vcore::profile_name(), got),
                expected: format!("other profile: {}", other),
                note: "both builds returned normally with different values, or this build panicked where the checking build returned".into(),
                kf: None,
            });
        }
    }
    rep.write(out);
    println!("arith recheck: {} cases, {} mismatches", rep.transitions, rep.violation_counts.values().sum::<u64>());
}

/// `arith dump <layout> <op> --tier T`: print every case of one block with its outcome (C11
/// localisation of a digest mismatch).
fn cmd_dump(args: &Args) {
    let l = Layout::parse(&args.v[1]).expect("layout");
    let tier = Tier::parse(&args.get("tier").unwrap_or("quick".into()));
    let tab = table();
    let e = tab.iter().find(|e| e.l == l).unwrap();
    let d = domain(l, tier, true);
    let mut o = std::io::BufWriter::new(std::io::stdout().lock());
    use std::io::Write;
    if let Some(i) = SHIFT_OPS.iter().position(|n| *n == args.v[2]) {
        for &a in &d.un {
            for n in [0u32, 1, l.w / 2, l.w - 1, l.w, l.w + 1, 2 * l.w, u32::MAX] {
                if (i == 3 || i == 7) && n >= l.w {
                    continue;
                }
                let got = subject(|| (e.shift)(i, a, n)).unwrap_or(Out::Panic);
                writeln!(o, "arith {} {} {:#x} {}\t{}", l.name(), SHIFT_OPS[i], a, n, got).unwrap();
            }
        }
        return;
    }
    if let Some(which) = FOLD_OPS.iter().position(|n| *n == args.v[2]) {
        let partners: Vec<u128> = d.un.iter().cloned().take(6).collect();
        for &a in &d.un {
            for &b in &partners {
                let xs = [a, b, a];
                let s1 = l.z(a).add(l.z(b));
                let s2 = s1.add(l.z(a));
                let p1 = l.z(a).mul(l.z(b)).shr_floor(l.frac);
                let p2 = if l.fits(&p1) { l.z(l.wrap(&p1)).mul(l.z(a)).shr_floor(l.frac) } else { p1 };
                let ok = if which < 2 { l.fits(&s1) && l.fits(&s2) } else { l.fits(&p1) && l.fits(&p2) };
                if ok {
                    let got = subject(|| (e.fold)(which, &xs)).unwrap_or(Out::Panic);
                    writeln!(o, "arith {} {} {:#x} {:#x} {:#x}\t{}", l.name(), FOLD_OPS[which], a, b, a, got).unwrap();
                }
            }
        }
        return;
    }
    let (unary, i, op) = find_op(&args.v[2]).expect("op");
    if unary {
        for &a in &d.un {
            if (op.base == "int" || op.base == "frac") && l.int_bits() == 0 {
                continue;
            }
            // the digests cover exactly the cases for which no profile-dependent panic is permitted
            if expect(l, op.form, &exact_un(l, op.base, a), false).is_none() {
                continue;
            }
            let got = subject(|| (e.un)(i, a)).unwrap_or(Out::Panic);
            writeln!(o, "{}\t{}", case_un(l, op, a), got).unwrap();
        }
    } else {
        let prods = d.bin.iter().flat_map(|(av, bv)| av.iter().map(move |&a| (a, bv.clone())));
        for (a, bv) in prods.chain(d.rel.iter().map(|(a, bs)| (*a, bs.clone()))) {
            {
                for &b in bv.iter() {
                    let ex = exact_bin(l, op.base, a, b);
                    if expect(l, op.form, &ex, false).is_none() || (op.form == Form::Plain && classify_kf(l, op, a, b, &ex).is_some()) {
                        continue;
                    }
                    let got = subject(|| (e.bin)(i, a, b)).unwrap_or(Out::Panic);
                    writeln!(o, "{}\t{}", case_bin(l, op, a, b), got).unwrap();
                }
            }
        }
    }
}

fn main() {
    vcore::par::install_hook();
    let args = Args::from_env();
    match args.cmd() {
        "run" => cmd_run(&args),
        "replay" => std::process::exit(cmd_replay(&args.v[1..])),
        "recheck" => cmd_recheck(&args.v[1], &args.get("out").expect("--out")),
        "dump" => cmd_dump(&args),
        "selftest" => oracle::selftest(),
        _ => {
            eprintln!("usage: arith run --prop Cxx --tier quick|thorough --out FILE [--only LAYOUT|FAMILY|wN] | replay L OP A [B] | recheck FILE --out FILE | dump L OP --tier T | selftest");
            std::process::exit(2);
        }
    }
}
