//! Driver `wrap`: explicit-state exploration of `Wrapping<F>`. The state is the wrapped value;
//! every operator/method is a transition; the model is arithmetic modulo 2^width. For the 8-bit
//! layouts the transition graph is explored from 0 by breadth-first search with every operand,
//! for wider layouts from the boundary alphabet. Serves C18 (and the C11 corpus).
#![allow(unused_imports, dead_code)]
#[macro_use]
mod ops;

use ops::*;
use std::collections::{BTreeMap, HashSet, VecDeque};
use std::hash::Hasher;
use substrate_fixed::types::extra;
use substrate_fixed::*;
use vcore::alpha::{self, Tier};
use vcore::exact::{exact_bin, exact_un};
use vcore::ieee::{self, Dec};
use vcore::par::{run_jobs, subject};
use vcore::report::{Args, Report, Tally, Violation};
use vcore::{mask, Lay, Layout, Out, Z};

pub struct Entry {
    l: Layout,
    bin: fn(usize, usize, u128, u128) -> Out,
    int: fn(usize, usize, u128, u128) -> Out,
    un: fn(usize, u128) -> Out,
    rot: fn(usize, u128, u32) -> Out,
    shift: fn(usize, usize, usize, u128, i128) -> Out,
    fold: fn(usize, &[u128]) -> Out,
    from_num: fn(usize, u128) -> Out,
    to_num: fn(usize, u128) -> Out,
    parse: fn(u32, &str) -> Out,
}

macro_rules! entry {
    ($T:ty, S) => {
        Entry { l: <$T as Lay>::LAYOUT, bin: bin::<$T>, int: int::<$T>, un: |op, a| if op >= 15 { un_signed::<$T>(op, a) } else { un::<$T>(op, a) }, rot: rot::<$T>, shift: shift::<$T>, fold: fold::<$T>, from_num: from_num::<$T>, to_num: to_num::<$T>, parse: parse::<$T> }
    };
    ($T:ty, U) => {
        Entry { l: <$T as Lay>::LAYOUT, bin: bin::<$T>, int: int::<$T>, un: |op, a| if op >= 19 { un_unsigned::<$T>(op, a) } else { un::<$T>(op, a) }, rot: rot::<$T>, shift: shift::<$T>, fold: fold::<$T>, from_num: from_num::<$T>, to_num: to_num::<$T>, parse: parse::<$T> }
    };
}
macro_rules! group {
    ($g:ident: [ $( ($T:ty, $B:ident, $w:expr, $f:expr, $s:ident) ),* ]) => {
        mod $g {
            use super::*;
            define_ops!();
            pub fn register(v: &mut Vec<Entry>) {
                $( v.push(entry!($T, $s)); )*
            }
        }
    };
}
vcore::for_each_group!(group);
macro_rules! table {
    ($($g:ident)*) => {
        fn table() -> Vec<Entry> {
            let mut v = vec![];
            $( $g::register(&mut v); )*
            v.sort_by_key(|e| (e.l.w, !e.l.signed, e.l.frac));
            v
        }
    };
}
vcore::with_group_names!(table);

// ------------------------------------------------------------------ the model

/// expected outcome of a binary operator on Wrapping values; None = division by zero (panic)
fn model_bin(l: Layout, op: usize, a: u128, b: u128) -> Out {
    let m = mask(l.w);
    match BIN[op] {
        "and" => Out::V(a & b & m),
        "or" => Out::V((a | b) & m),
        "xor" => Out::V((a ^ b) & m),
        name => match exact_bin(l, name, a, b) {
            Some(r) => Out::V(l.wrap(&r)),
            None => Out::Panic,
        },
    }
}
fn model_int(l: Layout, op: usize, a: u128, b: u128) -> Out {
    match exact_bin(l, INT[op], a, b) {
        Some(r) => Out::V(l.wrap(&r)),
        None => Out::Panic,
    }
}
fn next_pow2(l: Layout, a: u128) -> u128 {
    // smallest power of two >= a, modulo 2^w (0 when it does not fit)
    if a <= 1 {
        return 1 & mask(l.w);
    }
    let mut p = 1u128;
    for _ in 0..l.w {
        if p >= a {
            return p;
        }
        p <<= 1;
        if l.w < 128 && p >> l.w != 0 {
            return 0;
        }
        if p == 0 {
            return 0;
        }
    }
    0
}
fn model_un(l: Layout, op: usize, a: u128) -> Option<Out> {
    let m = mask(l.w);
    let a = a & m;
    Some(match UN[op] {
        "neg" | "neg&" => Out::V(l.wrap(&exact_un(l, "neg", a))),
        "not" | "not&" => Out::V(!a & m),
        "count_ones" => Out::C(a.count_ones() as u64),
        "count_zeros" => Out::C((l.w - a.count_ones()) as u64),
        "leading_zeros" => Out::C(if a == 0 { l.w as u64 } else { (a.leading_zeros() - (128 - l.w)) as u64 }),
        "trailing_zeros" => Out::C(if a == 0 { l.w as u64 } else { a.trailing_zeros() as u64 }),
        "is_positive" => Out::C((!l.is_neg(a) && a != 0) as u64),
        "is_negative" => Out::C(l.is_neg(a) as u64),
        "next_power_of_two" => Out::V(next_pow2(l, a)),
        "is_power_of_two" => Out::C((a != 0 && a & (a - 1) == 0) as u64),
        name => Out::V(l.wrap(&exact_un(l, name, a))),
    })
}
fn model_rot(l: Layout, dir: usize, a: u128, n: u32) -> Out {
    match dir {
        2 => return Out::V(a & mask(l.w)),
        3 => return Out::V(l.min_raw()),
        4 => return Out::V(l.max_raw()),
        5 => return Out::C(l.int_bits() as u64),
        6 => return Out::C(l.frac as u64),
        _ => {}
    }
    let w = l.w;
    let a = a & mask(w);
    let k = n % w;
    let k = if dir == 0 { k } else { (w - k) % w };
    Out::V(if k == 0 { a } else { ((a << k) | (a >> (w - k))) & mask(w) })
}
/// the amount as the given primitive type sees it, as a mathematical integer
fn amount_value(ty: usize, k: i128) -> i128 {
    match ty {
        0 => k as i8 as i128,
        1 => k as i16 as i128,
        2 => k as i32 as i128,
        3 => k as i64 as i128,
        4 => k,
        5 => k as isize as i128,
        6 => k as u8 as i128,
        7 => k as u16 as i128,
        8 => k as u32 as i128,
        9 => k as u64 as i128,
        10 => (k as u128 % 128) as i128, // u128 may exceed i128: only the residue modulo the width (<= 128) matters
        _ => k as usize as i128,
    }
}
fn model_shift(l: Layout, dir: usize, ty: usize, a: u128, k: i128) -> Out {
    let w = l.w as i128;
    let s = amount_value(ty, k).rem_euclid(w) as u32;
    let a = a & mask(l.w);
    if dir == 0 {
        Out::V((a << s) & mask(l.w))
    } else {
        Out::V(l.wrap(&l.z(a).shr_floor(s)))
    }
}
fn model_fold(l: Layout, which: usize, xs: &[u128]) -> Out {
    if which < 2 {
        let mut acc = Z::ZERO;
        for &x in xs {
            acc = l.z(l.wrap(&acc.add(l.z(x))));
        }
        Out::V(l.wrap(&acc))
    } else {
        let mut acc: u128 = if l.frac >= 128 { 0 } else { (1u128 << l.frac) & mask(l.w) };
        for (i, &x) in xs.iter().enumerate() {
            acc = if i == 0 { x & mask(l.w) } else { l.wrap(&l.z(acc).mul(l.z(x)).shr_floor(l.frac)) };
        }
        Out::V(acc)
    }
}
fn num_layout(i: usize) -> Option<Layout> {
    Some(match i {
        0 => Layout::new(8, 0, true),
        1 => Layout::new(16, 0, true),
        2 => Layout::new(32, 0, true),
        3 => Layout::new(64, 0, true),
        4 => Layout::new(128, 0, true),
        5 => Layout::new(64, 0, true),
        6 => Layout::new(8, 0, false),
        7 => Layout::new(16, 0, false),
        8 => Layout::new(32, 0, false),
        9 => Layout::new(64, 0, false),
        10 => Layout::new(128, 0, false),
        11 => Layout::new(64, 0, false),
        12 => Layout::new(8, 0, false), // bool as 0/1
        15 => Layout::new(8, 4, true),
        16 => Layout::new(16, 8, false),
        17 => Layout::new(32, 16, true),
        18 => Layout::new(32, 32, false),
        19 => Layout::new(128, 64, true),
        20 => Layout::new(128, 0, false),
        _ => return None,
    })
}
fn model_from_num(l: Layout, src: usize, raw: u128) -> Out {
    match num_layout(src) {
        Some(sl) => {
            let raw = if src == 12 { raw & 1 } else { raw };
            let z = sl.z(raw);
            let r = if l.frac >= sl.frac { z.shl(l.frac - sl.frac) } else { z.shr_floor(sl.frac - l.frac) };
            Out::V(l.wrap(&r))
        }
        None => {
            let d = if src == 13 { ieee::dec32(raw as u32) } else { ieee::dec64(raw as u64) };
            match d {
                Dec::Nan | Dec::Inf { .. } => Out::Panic,
                Dec::Fin { neg, m, e } => match ieee::float_to_fixed_bits(neg, m, e, l.frac) {
                    Some(r) => Out::V(l.wrap(&r)),
                    None => Out::V(0),
                },
            }
        }
    }
}
fn model_to_num(l: Layout, dst: usize, a: u128) -> Option<Out> {
    if dst == 12 {
        return None;
    }
    Some(match num_layout(dst) {
        Some(dl) => {
            let z = l.z(a);
            let r = if dl.frac >= l.frac { z.shl(dl.frac - l.frac) } else { z.shr_floor(l.frac - dl.frac) };
            if !dl.fits(&r) {
                // plain conversion without overflow handling: nothing is specified
                return None;
            }
            Out::V(dl.wrap(&r))
        }
        None => {
            let z = l.z(a);
            let mag = z.abs().low128();
            if dst == 13 {
                Out::F32(ieee::encode_f32(z.is_neg(), mag, l.frac))
            } else {
                Out::F64(ieee::encode_f64(z.is_neg(), mag, l.frac))
            }
        }
    })
}
fn model_parse(l: Layout, radix: u32, s: &str) -> Out {
    vcore::lit::expect_parse(l, radix, 2, s)
}

// ------------------------------------------------------------------ exploration

const SHIFT_AMOUNTS: [i128; 14] = [0, 1, 3, -1, -3, 7, 8, 9, 255, 256, i128::MIN, i128::MAX, 1 << 40, -(1 << 40)];

fn shift_amounts(l: Layout) -> Vec<i128> {
    let w = l.w as i128;
    let mut v = SHIFT_AMOUNTS.to_vec();
    v.extend([w - 1, w, w + 1, 2 * w, 2 * w + 3, -w, -w - 1, w / 2]);
    v.sort();
    v.dedup();
    v
}

fn parse_strings(l: Layout, tier: Tier) -> Vec<(u32, String)> {
    // the literal families of the parsing check (ties and their neighbourhoods in all four radices, integer parts
    // beyond the range, wrap-around literals, decimal limb-carry literals): Wrapping parsing must return the
    // rounded value modulo 2^width for every one of them
    let mut v = vcore::litfam::tie_strings(l, tier);
    let top = if l.int_bits() == 0 { Z::ZERO } else { Z::pow2(l.int_bits() - l.signed as u32) };
    for radix in [10u32, 2, 8, 16] {
        for s in ["0", "1", "-1", "+1.1", "0.1", "-0.1", "7", "-7", ".4", "1.", "", "-", "x", "1.1.1", "0.0000000000000000000000000000000000000001"] {
            if lex_ok(s, radix) || s.len() < 3 {
                v.push((radix, s.to_string()));
            }
        }
        for z in [top, top.add(Z::one()), top.shl(1), top.shl(3).add(Z::from_u128(5)), top.shl(70)] {
            let mut ds = vec![];
            let mut y = z;
            while !y.is_zero() {
                let (q, r) = y.divrem_small(radix as u64);
                ds.push(std::char::from_digit(r as u32, 16).unwrap());
                y = q;
            }
            let s: String = if ds.is_empty() { "0".into() } else { ds.iter().rev().collect() };
            v.push((radix, s.clone()));
            v.push((radix, format!("-{}", s)));
            v.push((radix, format!("{}.1", s)));
        }
    }
    v
}
fn lex_ok(s: &str, radix: u32) -> bool {
    vcore::lit::lex(s, radix).is_some()
}

struct Ctx<'a> {
    e: &'a Entry,
    rep: Report,
    tally: Tally,
    dig: std::collections::hash_map::DefaultHasher,
    c11: bool,
    dump: bool,
}
const NGROUPS: usize = 9;
const GROUP_NAMES: [&str; NGROUPS] = ["operators", "int-operators", "unary", "rotate", "shift", "sum-product", "from_num", "to_num", "parse"];

impl<'a> Ctx<'a> {
    fn judge(&mut self, group: usize, case: impl FnOnce() -> String, got: Out, exp: Option<Out>, kf: Option<&'static str>, what: &str) {
        if self.dump {
            println!("{}\t{}", case(), got);
            return;
        }
        self.rep.transitions += 1;
        self.tally.counts[group][got.class()] += 1;
        if self.c11 {
            got.feed(&mut self.dig);
            return;
        }
        let Some(exp) = exp else { return };
        if exp == Out::Panic {
            // zero divisor / non-finite float: the panic is permitted ("panics only for ..."), not required
            return;
        }
        self.rep.judged += 1;
        self.tally.judged[group] += 1;
        if got != exp {
            self.rep.violation(Violation {
                key: format!("{} {}", self.e.l.class(), what),
                diff: match (&got, &exp) {
                    (Out::Panic, _) => "unexpected-panic".into(),
                    (_, Out::Panic) => "missing-panic".into(),
                    _ => "value".into(),
                },
                case: case(),
                observed: got.to_string(),
                expected: exp.to_string(),
                note: "expected = exact result modulo 2^width".into(),
                kf,
            });
        }
    }

    /// all transitions out of state `a` (binary ones with every `b` in `others`); returns successor states
    fn transitions_from(&mut self, a: u128, others: &[u128], succ: &mut Vec<u128>) {
        let e = self.e;
        let l = e.l;
        let name = l.name();
        // unary
        for op in 0..UN.len() {
            if (15..19).contains(&op) && !l.signed || op >= 19 && l.signed {
                continue;
            }
            if (UN[op] == "int" || UN[op] == "frac") && l.int_bits() == 0 {
                continue;
            }
            let got = subject(|| (e.un)(op, a)).unwrap_or(Out::Panic);
            if let Out::V(v) = got {
                succ.push(v);
            }
            // bit counts, is_*, next_power_of_two are not in the list of C18 but are forwarders with a definitional
            // value (a count of bits of the pattern, the sign, the next power of two or 0): judged like the others
            self.judge(2, || format!("wrap {} un {} {:#x}", name, UN[op], a), got, model_un(l, op, a), None, UN[op]);
        }
        for dir in 0..2 {
            for n in [0u32, 1, l.w - 1, l.w / 2] {
                let got = subject(|| (e.rot)(dir, a, n)).unwrap_or(Out::Panic);
                self.judge(3, || format!("wrap {} rot {} {:#x} {}", name, dir, a, n), got, Some(model_rot(l, dir, a, n)), None, "rotate");
            }
        }
        // `Wrapping::from(F)`; for the first state also the limits and layout functions of `Wrapping<F>`
        for dir in 2..(if a == 0 { 7 } else { 3 }) {
            let got = subject(|| (e.rot)(dir, a, 0)).unwrap_or(Out::Panic);
            self.judge(2, || format!("wrap {} rot {} {:#x} 0", name, dir, a), got, Some(model_rot(l, dir, a, 0)), None, if dir == 2 { "from_fixed" } else { "limits" });
        }
        // shifts: every amount type x amounts x 6 forms
        for dir in 0..2 {
            for ty in 0..12 {
                for &k in &shift_amounts(l) {
                    let exp = model_shift(l, dir, ty, a, k);
                    for form in 0..6 {
                        let got = subject(|| (e.shift)(dir, ty, form, a, k)).unwrap_or(Out::Panic);
                        if let (Out::V(v), 0) = (got, form) {
                            succ.push(v);
                        }
                        self.judge(4, || format!("wrap {} shift {} {} {} {:#x} {}", name, if dir == 0 { "shl" } else { "shr" }, AMOUNT_TYPES[ty], FORMS[form], a, k), got, Some(exp), None, if dir == 0 { "shl" } else { "shr" });
                    }
                }
            }
        }
        // binary with every second operand
        for &b in others {
            for op in 0..BIN.len() {
                let exp = model_bin(l, op, a, b);
                let in_region = BIN[op] == "div_euclid" && vcore::exact::div_euclid_truncated_quotient_overflows(l, a, b);
                let nforms = if op < 8 { 6 } else { 1 };
                for form in 0..nforms {
                    let got = subject(|| (e.bin)(op, form, a, b)).unwrap_or(Out::Panic);
                    // known finding only if the observed value is exactly the documented legacy behaviour
                    let kf = if in_region && got == vcore::exact::div_euclid_legacy_outcome(l, 2, a, b, vcore::CHECKED_PROFILE) { Some(vcore::exact::KF_DIV_EUCLID) } else { None };
                    if let (Out::V(v), 0) = (got, form) {
                        succ.push(v);
                    }
                    self.judge(0, || format!("wrap {} bin {} {} {:#x} {:#x}", name, BIN[op], FORMS[form], a, b), got, Some(exp), kf, BIN[op]);
                }
            }
            for op in 0..INT.len() {
                let exp = model_int(l, op, a, b);
                let nforms = if op < 3 { 6 } else { 1 };
                for form in 0..nforms {
                    let got = subject(|| (e.int)(op, form, a, b)).unwrap_or(Out::Panic);
                    self.judge(1, || format!("wrap {} int {} {} {:#x} {:#x}", name, INT[op], FORMS[form], a, b), got, Some(exp), None, INT[op]);
                }
            }
        }
        // to_num
        for dst in 0..NUMS.len() {
            if let Some(exp) = model_to_num(l, dst, a) {
                let got = subject(|| (e.to_num)(dst, a)).unwrap_or(Out::Panic);
                // to_num forwards to `F::to_num`: judged where the value fits the destination (the model returns None otherwise)
                self.judge(7, || format!("wrap {} to_num {} {:#x}", name, NUMS[dst], a), got, Some(exp), None, "to_num");
            }
        }
    }
}

fn explore_layout(e: &Entry, tier: Tier, c11: bool, dump: bool) -> (Report, u64) {
    let l = e.l;
    let mut cx = Ctx { e, rep: Report::new("wrap", "", tier.name()), tally: Tally::new(NGROUPS), dig: Default::default(), c11, dump };
    let name = l.name();
    if l.w == 8 {
        // breadth-first search of the state graph from 0; second operands: every value
        let all: Vec<u128> = alpha::all_values(8);
        let mut seen: HashSet<u128> = HashSet::new();
        let mut queue = VecDeque::new();
        seen.insert(0);
        queue.push_back(0u128);
        let mut succ = vec![];
        while let Some(a) = queue.pop_front() {
            cx.rep.states += 1;
            if a != 0 {
                cx.rep.nontrivial_states += 1;
            }
            succ.clear();
            cx.transitions_from(a, &all, &mut succ);
            for &s in &succ {
                if seen.insert(s) {
                    queue.push_back(s);
                }
            }
        }
        cx.rep.extra.insert("bfs_reachable_states".into(), seen.len() as u64);
        cx.rep.guard(&format!("{}: all 256 states reachable from 0", name), (seen.len() == 256) as u64);
        // conformance cross-check: all operation sequences of length 3 over a 12-operation alphabet
        // from every state, implementation chain vs model chain
        let seq_ops: [(usize, u128); 12] = [(0, 1), (0, 0x7f), (1, 3), (2, 3), (2, 0xfe), (3, 3), (3, 0xff), (4, 5), (5, 0xf0), (7, 0xaa), (8, 2), (9, 7)];
        let mut nseq = 0u64;
        for &a in &all {
            for i in 0..12 {
                for j in 0..12 {
                    for k in 0..12 {
                        let mut x = a;
                        let mut mx = Some(a);
                        let mut ok = true;
                        for &(op, b) in [seq_ops[i], seq_ops[j], seq_ops[k]].iter() {
                            let got = subject(|| (e.bin)(op, 0, x, b)).unwrap_or(Out::Panic);
                            let exp = model_bin(l, op, mx.unwrap(), b);
                            let in_kf = BIN[op] == "div_euclid" && vcore::exact::div_euclid_truncated_quotient_overflows(l, x, b);
                            cx.rep.transitions += 1;
                            if c11 {
                                got.feed(&mut cx.dig);
                            }
                            if dump {
                                println!("wrap {} bin {} v.v {:#x} {:#x}\t{}", name, BIN[op], x, b, got);
                            }
                            if in_kf {
                                ok = false; // known finding on this step: the chains legitimately diverge
                                break;
                            }
                            if exp == Out::Panic {
                                break; // zero divisor: nothing required
                            }
                            if got != exp {
                                if !c11 {
                                    cx.rep.violation(Violation { key: format!("{} sequence", l.class()), diff: "sequence-diverges".into(), case: format!("wrap {} bin {} v.v {:#x} {:#x}", name, BIN[op], x, b), observed: got.to_string(), expected: exp.to_string(), note: format!("step of the sequence {:?},{:?},{:?} from state {:#x}", seq_ops[i], seq_ops[j], seq_ops[k], a), kf: None });
                                }
                                ok = false;
                                break;
                            }
                            match got {
                                Out::V(v) => {
                                    x = v;
                                    mx = Some(v);
                                }
                                _ => {
                                    ok = false;
                                    break;
                                }
                            }
                        }
                        let _ = ok;
                        nseq += 1;
                    }
                }
            }
        }
        if !c11 {
            cx.rep.judged += nseq;
        }
        cx.rep.extra.insert("sequences_of_length_3".into(), nseq);
    } else {
        let b = alpha::boundary(l, tier);
        let others: Vec<u128> = match tier {
            Tier::Quick => alpha::boundary(l, Tier::Quick),
            Tier::Thorough => b.clone(),
        };
        let mut succ = vec![];
        for &a in &b {
            cx.rep.states += 1;
            if a != 0 {
                cx.rep.nontrivial_states += 1;
            }
            succ.clear();
            cx.transitions_from(a, &others, &mut succ);
        }
    }
    // sum / product over all short sequences
    let fold_vals: Vec<u128> = if l.w == 8 { (0..256).step_by(5).collect::<Vec<u128>>().into_iter().chain([0x7f, 0x80, 0xff, 1]).collect() } else { alpha::boundary(l, Tier::Quick).into_iter().step_by(4).collect() };
    for which in 0..4 {
        let got = subject(|| (e.fold)(which, &[])).unwrap_or(Out::Panic);
        cx.judge(5, || format!("wrap {} fold {}", name, FOLDS[which]), got, Some(model_fold(l, which, &[])), None, FOLDS[which]);
        for &a in &fold_vals {
            let got = subject(|| (e.fold)(which, &[a])).unwrap_or(Out::Panic);
            cx.judge(5, || format!("wrap {} fold {} {:#x}", name, FOLDS[which], a), got, Some(model_fold(l, which, &[a])), None, FOLDS[which]);
            for &b in &fold_vals {
                let got = subject(|| (e.fold)(which, &[a, b])).unwrap_or(Out::Panic);
                cx.judge(5, || format!("wrap {} fold {} {:#x} {:#x}", name, FOLDS[which], a, b), got, Some(model_fold(l, which, &[a, b])), None, FOLDS[which]);
            }
            let xs = [a, 3, a, 0xfd];
            let got = subject(|| (e.fold)(which, &xs)).unwrap_or(Out::Panic);
            cx.judge(5, || format!("wrap {} fold {} {:#x} 0x3 {:#x} 0xfd", name, FOLDS[which], a, a), got, Some(model_fold(l, which, &xs)), None, FOLDS[which]);
        }
    }
    // from_num
    for src in 0..NUMS.len() {
        let vals: Vec<u128> = match src {
            12 => vec![0, 1],
            13 => alpha::f32_alphabet(Tier::Quick).into_iter().step_by(if tier == Tier::Quick { 17 } else { 3 }).map(|x| x as u128).chain([0x7f800000u128, 0xff800000, 0x7fc00000, 0x80000000, 0x7f7fffff, 1]).collect(),
            14 => alpha::f64_alphabet(Tier::Quick).into_iter().step_by(if tier == Tier::Quick { 57 } else { 9 }).map(|x| x as u128).chain([0x7ff0000000000000u128, 0xfff0000000000000, 0x7ff8000000000000, 1 << 63, 0x7fefffffffffffff, 1]).collect(),
            _ => {
                let sl = num_layout(src).unwrap();
                if sl.w == 8 {
                    alpha::all_values(8)
                } else {
                    alpha::boundary(sl, Tier::Quick)
                }
            }
        };
        for &raw in &vals {
            let got = subject(|| (e.from_num)(src, raw)).unwrap_or(Out::Panic);
            cx.judge(6, || format!("wrap {} from_num {} {:#x}", name, NUMS[src], raw), got, Some(model_from_num(l, src, raw)), None, "from_num");
        }
    }
    // parsing
    for (radix, s) in parse_strings(l, tier) {
        let got = subject(|| (e.parse)(radix, &s)).unwrap_or(Out::Panic);
        cx.judge(8, || format!("wrap {} parse {} utf8:{}", name, radix, s.bytes().map(|b| format!("{:02x}", b)).collect::<String>()), got, Some(model_parse(l, radix, &s)), None, "parse");
    }
    let Ctx { mut rep, tally, dig, .. } = cx;
    rep.add_tally(&l.class(), &GROUP_NAMES, &tally);
    (rep, dig.finish())
}

fn cmd_run(args: &Args) {
    let prop = args.get("prop").expect("--prop");
    let tier = Tier::parse(&args.get("tier").unwrap_or("quick".into()));
    let only = args.get("only");
    let t0 = std::time::Instant::now();
    let tab: Vec<Entry> = table().into_iter().filter(|e| only.as_ref().map_or(true, |o| *o == e.l.name() || *o == e.l.family())).collect();
    let c11 = prop == "C11";
    let results = run_jobs(&tab, |e| explore_layout(e, tier, c11, false));
    let mut rep = Report::new("wrap", &prop, tier.name());
    for (e, (r, d)) in tab.iter().zip(results) {
        if c11 {
            rep.digests.insert(format!("{} all", e.l.name()), format!("{:016x}", d));
        }
        rep.merge(r);
    }
    rep.layouts = tab.len() as u64;
    for i in [0usize, tab.len() / 2, tab.len() - 1] {
        let e = &tab[i];
        let a = e.l.min_raw() | 3;
        rep.samples.push(format!("wrap {} bin mul v.v {:#x} {:#x} -> {} (model {})", e.l.name(), a, a, subject(|| (e.bin)(2, 0, a, a)).unwrap_or(Out::Panic), model_bin(e.l, 2, a, a)));
        rep.samples.push(format!("wrap {} shift shl i8 assign {:#x} -1 -> {} (model {})", e.l.name(), a, subject(|| (e.shift)(0, 0, 4, a, -1)).unwrap_or(Out::Panic), model_shift(e.l, 0, 0, a, -1)));
    }
    rep.complete_subspaces = vec![
        "full transition graph of Wrapping<F> for each of the 18 8-bit layouts: every one of the 256 states (all reached by breadth-first search from 0), every operator and method, every second operand, every value/reference/assigning form, 12 shift-amount types".into(),
        "all operation sequences of length 3 over a 12-operation alphabet from every state of the 8-bit layouts (implementation chain against model chain)".into(),
    ];
    rep.wall_s = t0.elapsed().as_secs_f64();
    rep.write(&args.get("out").expect("--out"));
    println!("wrap prop={} tier={} profile={} layouts={} states={} transitions={} judged={} mismatches={} wall={:.1}s", rep.prop, rep.tier, vcore::profile_name(), rep.layouts, rep.states, rep.transitions, rep.judged, rep.violation_counts.values().sum::<u64>(), rep.wall_s);
}

fn hexv(s: &str) -> u128 {
    u128::from_str_radix(s.trim_start_matches("0x"), 16).expect("hex")
}

fn cmd_replay(a: &[String]) -> i32 {
    let tab = table();
    let l = Layout::parse(&a[0]).unwrap();
    let e = tab.iter().find(|e| e.l == l).unwrap();
    let pos = |list: &[&str], s: &str| list.iter().position(|x| *x == s).expect("name");
    let (got, exp, kf): (Out, Option<Out>, Option<&str>) = match a[1].as_str() {
        "un" => {
            let op = pos(&UN, &a[2]);
            (subject(|| (e.un)(op, hexv(&a[3]))).unwrap_or(Out::Panic), model_un(l, op, hexv(&a[3])), None)
        }
        "rot" => {
            let (dir, x, n) = (a[2].parse().unwrap(), hexv(&a[3]), a[4].parse().unwrap());
            (subject(|| (e.rot)(dir, x, n)).unwrap_or(Out::Panic), Some(model_rot(l, dir, x, n)), None)
        }
        "shift" => {
            let dir = if a[2] == "shl" { 0 } else { 1 };
            let ty = pos(&AMOUNT_TYPES, &a[3]);
            let form = pos(&FORMS, &a[4]);
            let (x, k): (u128, i128) = (hexv(&a[5]), a[6].parse().unwrap());
            (subject(|| (e.shift)(dir, ty, form, x, k)).unwrap_or(Out::Panic), Some(model_shift(l, dir, ty, x, k)), None)
        }
        "bin" => {
            let (op, form, x, y) = (pos(&BIN, &a[2]), pos(&FORMS, &a[3]), hexv(&a[4]), hexv(&a[5]));
            let g = subject(|| (e.bin)(op, form, x, y)).unwrap_or(Out::Panic);
            let kf = if BIN[op] == "div_euclid" && vcore::exact::div_euclid_truncated_quotient_overflows(l, x, y) && g == vcore::exact::div_euclid_legacy_outcome(l, 2, x, y, vcore::CHECKED_PROFILE) { Some(vcore::exact::KF_DIV_EUCLID) } else { None };
            (g, Some(model_bin(l, op, x, y)), kf)
        }
        "int" => {
            let (op, form, x, y) = (pos(&INT, &a[2]), pos(&FORMS, &a[3]), hexv(&a[4]), hexv(&a[5]));
            (subject(|| (e.int)(op, form, x, y)).unwrap_or(Out::Panic), Some(model_int(l, op, x, y)), None)
        }
        "fold" => {
            let which = pos(&FOLDS, &a[2]);
            let xs: Vec<u128> = a[3..].iter().map(|s| hexv(s)).collect();
            (subject(|| (e.fold)(which, &xs)).unwrap_or(Out::Panic), Some(model_fold(l, which, &xs)), None)
        }
        "from_num" => {
            let src = pos(&NUMS, &a[2]);
            (subject(|| (e.from_num)(src, hexv(&a[3]))).unwrap_or(Out::Panic), Some(model_from_num(l, src, hexv(&a[3]))), None)
        }
        "to_num" => {
            let dst = pos(&NUMS, &a[2]);
            (subject(|| (e.to_num)(dst, hexv(&a[3]))).unwrap_or(Out::Panic), model_to_num(l, dst, hexv(&a[3])), None)
        }
        "parse" => {
            let radix: u32 = a[2].parse().unwrap();
            let h = a[3].strip_prefix("utf8:").unwrap();
            let bytes: Vec<u8> = (0..h.len() / 2).map(|i| u8::from_str_radix(&h[2 * i..2 * i + 2], 16).unwrap()).collect();
            let s = String::from_utf8(bytes).unwrap();
            (subject(|| (e.parse)(radix, &s)).unwrap_or(Out::Panic), Some(model_parse(l, radix, &s)), None)
        }
        _ => return 2,
    };
    println!("profile:  {}", vcore::profile_name());
    println!("call:     Wrapping<{}> {}", l.name(), a[1..].join(" "));
    println!("observed: {}", got);
    match exp {
        Some(x) => {
            println!("expected: {} (exact result modulo 2^{})", x, l.w);
            if let Some(k) = kf {
                println!("known-finding class: {}", k);
            }
            if x == got {
                println!("AGREES");
                0
            } else {
                println!("DIFFERS");
                1
            }
        }
        None => 0,
    }
}

fn main() {
    vcore::par::install_hook();
    let args = Args::from_env();
    match args.cmd() {
        "run" => cmd_run(&args),
        "replay" => std::process::exit(cmd_replay(&args.v[1..])),
        "dump" => {
            let l = Layout::parse(&args.v[1]).unwrap();
            let tier = Tier::parse(&args.get("tier").unwrap_or("quick".into()));
            let tab = table();
            let e = tab.iter().find(|e| e.l == l).unwrap();
            explore_layout(e, tier, true, true);
        }
        _ => {
            eprintln!("usage: wrap run --prop C18|C11 --tier T --out FILE [--only L] | replay L KIND ...");
            std::process::exit(2);
        }
    }
}
