//! Thin per-layout dispatch for `Wrapping<F>`. Re-defined by macro in every group module.

/// binary operators on two Wrapping values; forms: value/value, &/value, value/&, &/&, op=, op= &
pub const BIN: [&str; 10] = ["add", "sub", "mul", "div", "rem", "and", "or", "xor", "div_euclid", "rem_euclid"];
/// operators with an integer right-hand side
pub const INT: [&str; 5] = ["mul_int", "div_int", "rem_int", "div_euclid_int", "rem_euclid_int"];
pub const FORMS: [&str; 6] = ["v.v", "&.v", "v.&", "&.&", "assign", "assign&"];
pub const UN: [&str; 21] = [
    "neg", "neg&", "not", "not&", "int", "frac", "round_to_zero", "ceil", "floor", "round", "round_ties_to_even", "count_ones", "count_zeros", "leading_zeros", "trailing_zeros", "abs", "signum", "is_positive", "is_negative", "next_power_of_two",
    "is_power_of_two",
];
pub const AMOUNT_TYPES: [&str; 12] = ["i8", "i16", "i32", "i64", "i128", "isize", "u8", "u16", "u32", "u64", "u128", "usize"];
pub const FOLDS: [&str; 4] = ["sum", "sum&", "product", "product&"];
/// sources / targets of from_num / to_num
pub const NUMS: [&str; 21] = ["i8", "i16", "i32", "i64", "i128", "isize", "u8", "u16", "u32", "u64", "u128", "usize", "bool", "f32", "f64", "I4F4", "U8F8", "I16F16", "U0F32", "I64F64", "U128F0"];

#[macro_export]
macro_rules! forms {
    ($form:expr, $x:ident, $y:ident, $op:tt, $opa:tt) => {
        match $form {
            0 => o($x $op $y),
            1 => o(&$x $op $y),
            2 => o($x $op &$y),
            3 => o(&$x $op &$y),
            4 => { let mut t = $x; t $opa $y; o(t) }
            _ => { let mut t = $x; t $opa &$y; o(t) }
        }
    };
}

#[macro_export]
macro_rules! shift_ty {
    ($dir:expr, $form:expr, $x:ident, $k:ident, $T:ty) => {{
        let n = $k as $T;
        if $dir == 0 { $crate::forms!($form, $x, n, <<, <<=) } else { $crate::forms!($form, $x, n, >>, >>=) }
    }};
}

#[macro_export]
macro_rules! prim_out {
    ($v:expr, $w:expr) => { Out::V(($v as u128) & vcore::mask($w)) };
}

#[macro_export]
macro_rules! define_ops {
    () => {
        use core::ops::*;
        use $crate::{forms, prim_out, shift_ty};
        use substrate_fixed::types::*;
        use substrate_fixed::Wrapping;
        use vcore::{Lay, Out};
        type W<F> = Wrapping<F>;
        #[inline(always)]
        fn w<F: Lay>(raw: u128) -> W<F> {
            Wrapping(F::from_raw(raw))
        }
        #[inline(always)]
        fn o<F: Lay>(x: W<F>) -> Out {
            Out::V(x.0.raw())
        }
        pub fn bin<F: Lay>(op: usize, form: usize, a: u128, b: u128) -> Out
        where
            for<'a> &'a F: BitAnd<F, Output = F> + BitAnd<&'a F, Output = F> + BitOr<F, Output = F> + BitOr<&'a F, Output = F> + BitXor<F, Output = F> + BitXor<&'a F, Output = F>,
            for<'a> F: BitAnd<&'a F, Output = F> + BitOr<&'a F, Output = F> + BitXor<&'a F, Output = F> + BitAndAssign<&'a F> + BitOrAssign<&'a F> + BitXorAssign<&'a F>,
        {
            let (x, y) = (w::<F>(a), w::<F>(b));
            match op {
                0 => forms!(form, x, y, +, +=),
                1 => forms!(form, x, y, -, -=),
                2 => forms!(form, x, y, *, *=),
                3 => forms!(form, x, y, /, /=),
                4 => forms!(form, x, y, %, %=),
                5 => forms!(form, x, y, &, &=),
                6 => forms!(form, x, y, |, |=),
                7 => forms!(form, x, y, ^, ^=),
                8 => o(x.div_euclid(y)),
                _ => o(x.rem_euclid(y)),
            }
        }
        pub fn int<F: Lay>(op: usize, form: usize, a: u128, b: u128) -> Out
        where
            W<F>: Mul<F::Bits, Output = W<F>> + Div<F::Bits, Output = W<F>> + Rem<F::Bits, Output = W<F>> + MulAssign<F::Bits> + DivAssign<F::Bits> + RemAssign<F::Bits>,
            for<'a> W<F>: Mul<&'a F::Bits, Output = W<F>> + Div<&'a F::Bits, Output = W<F>> + Rem<&'a F::Bits, Output = W<F>> + MulAssign<&'a F::Bits> + DivAssign<&'a F::Bits> + RemAssign<&'a F::Bits>,
            for<'a> &'a W<F>: Mul<F::Bits, Output = W<F>> + Div<F::Bits, Output = W<F>> + Rem<F::Bits, Output = W<F>> + Mul<&'a F::Bits, Output = W<F>> + Div<&'a F::Bits, Output = W<F>> + Rem<&'a F::Bits, Output = W<F>>,
            F::Bits: Copy,
        {
            let x = w::<F>(a);
            let n = F::bits_from_raw(b);
            match op {
                0 => forms!(form, x, n, *, *=),
                1 => forms!(form, x, n, /, /=),
                2 => forms!(form, x, n, %, %=),
                3 => o(x.div_euclid_int(n)),
                _ => o(x.rem_euclid_int(n)),
            }
        }
        pub fn un<F: Lay>(op: usize, a: u128) -> Out
        where
            for<'a> &'a F: Not<Output = F>,
        {
            let x = w::<F>(a);
            match op {
                0 => o(-x),
                1 => o(-&x),
                2 => o(!x),
                3 => o(!&x),
                4 => o(x.int()),
                5 => o(x.frac()),
                6 => o(x.round_to_zero()),
                7 => o(x.ceil()),
                8 => o(x.floor()),
                9 => o(x.round()),
                10 => o(x.round_ties_to_even()),
                11 => Out::C(x.count_ones() as u64),
                12 => Out::C(x.count_zeros() as u64),
                13 => Out::C(x.leading_zeros() as u64),
                _ => Out::C(x.trailing_zeros() as u64),
            }
        }
        pub fn un_signed<F: Lay + substrate_fixed::traits::FixedSigned>(op: usize, a: u128) -> Out {
            let x = w::<F>(a);
            match op {
                15 => o(x.abs()),
                16 => o(x.signum()),
                17 => Out::C(x.is_positive() as u64),
                _ => Out::C(x.is_negative() as u64),
            }
        }
        pub fn un_unsigned<F: Lay + substrate_fixed::traits::FixedUnsigned>(op: usize, a: u128) -> Out {
            let x = w::<F>(a);
            match op {
                19 => o(x.next_power_of_two()),
                _ => Out::C(x.is_power_of_two() as u64),
            }
        }
        pub fn rot<F: Lay>(dir: usize, a: u128, n: u32) -> Out {
            let x = w::<F>(a);
            match dir {
                0 => o(x.rotate_left(n)),
                1 => o(x.rotate_right(n)),
                // dir >= 2: `From<F> for Wrapping<F>` and the limits / layout functions of `Wrapping<F>`
                2 => o(W::<F>::from(F::from_raw(a))),
                3 => o(W::<F>::min_value()),
                4 => o(W::<F>::max_value()),
                5 => Out::C(W::<F>::int_nbits() as u64),
                _ => Out::C(W::<F>::frac_nbits() as u64),
            }
        }
        pub fn shift<F: Lay>(dir: usize, ty: usize, form: usize, a: u128, k: i128) -> Out
        where
            for<'a> &'a F: Shl<u32, Output = F> + Shr<u32, Output = F>,
        {
            let x = w::<F>(a);
            match ty {
                0 => shift_ty!(dir, form, x, k, i8),
                1 => shift_ty!(dir, form, x, k, i16),
                2 => shift_ty!(dir, form, x, k, i32),
                3 => shift_ty!(dir, form, x, k, i64),
                4 => shift_ty!(dir, form, x, k, i128),
                5 => shift_ty!(dir, form, x, k, isize),
                6 => shift_ty!(dir, form, x, k, u8),
                7 => shift_ty!(dir, form, x, k, u16),
                8 => shift_ty!(dir, form, x, k, u32),
                9 => shift_ty!(dir, form, x, k, u64),
                10 => shift_ty!(dir, form, x, k, u128),
                _ => shift_ty!(dir, form, x, k, usize),
            }
        }
        pub fn fold<F: Lay>(which: usize, xs: &[u128]) -> Out {
            let ws: Vec<W<F>> = xs.iter().map(|&a| w::<F>(a)).collect();
            match which {
                0 => o(ws.iter().cloned().sum::<W<F>>()),
                1 => o(ws.iter().sum::<W<F>>()),
                2 => o(ws.iter().cloned().product::<W<F>>()),
                _ => o(ws.iter().product::<W<F>>()),
            }
        }
        /// from_num: value given as raw bits of the source
        pub fn from_num<F: Lay>(src: usize, raw: u128) -> Out {
            match src {
                0 => o(W::<F>::from_num(raw as i8)),
                1 => o(W::<F>::from_num(raw as i16)),
                2 => o(W::<F>::from_num(raw as i32)),
                3 => o(W::<F>::from_num(raw as i64)),
                4 => o(W::<F>::from_num(raw as i128)),
                5 => o(W::<F>::from_num(raw as isize)),
                6 => o(W::<F>::from_num(raw as u8)),
                7 => o(W::<F>::from_num(raw as u16)),
                8 => o(W::<F>::from_num(raw as u32)),
                9 => o(W::<F>::from_num(raw as u64)),
                10 => o(W::<F>::from_num(raw)),
                11 => o(W::<F>::from_num(raw as usize)),
                12 => o(W::<F>::from_num(raw & 1 == 1)),
                13 => o(W::<F>::from_num(f32::from_bits(raw as u32))),
                14 => o(W::<F>::from_num(f64::from_bits(raw as u64))),
                15 => o(W::<F>::from_num(I4F4::from_bits(raw as i8))),
                16 => o(W::<F>::from_num(U8F8::from_bits(raw as u16))),
                17 => o(W::<F>::from_num(I16F16::from_bits(raw as i32))),
                18 => o(W::<F>::from_num(U0F32::from_bits(raw as u32))),
                19 => o(W::<F>::from_num(I64F64::from_bits(raw as i128))),
                _ => o(W::<F>::from_num(U128F0::from_bits(raw))),
            }
        }
        pub fn to_num<F: Lay>(dst: usize, a: u128) -> Out {
            let x = w::<F>(a);
            match dst {
                0 => prim_out!(x.to_num::<i8>(), 8),
                1 => prim_out!(x.to_num::<i16>(), 16),
                2 => prim_out!(x.to_num::<i32>(), 32),
                3 => prim_out!(x.to_num::<i64>(), 64),
                4 => prim_out!(x.to_num::<i128>(), 128),
                5 => prim_out!(x.to_num::<isize>(), 64),
                6 => prim_out!(x.to_num::<u8>(), 8),
                7 => prim_out!(x.to_num::<u16>(), 16),
                8 => prim_out!(x.to_num::<u32>(), 32),
                9 => prim_out!(x.to_num::<u64>(), 64),
                10 => prim_out!(x.to_num::<u128>(), 128),
                11 => prim_out!(x.to_num::<usize>(), 64),
                13 => Out::F32(x.to_num::<f32>().to_bits()),
                14 => Out::F64(x.to_num::<f64>().to_bits()),
                15 => Out::V(x.to_num::<I4F4>().raw()),
                16 => Out::V(x.to_num::<U8F8>().raw()),
                17 => Out::V(x.to_num::<I16F16>().raw()),
                18 => Out::V(x.to_num::<U0F32>().raw()),
                19 => Out::V(x.to_num::<I64F64>().raw()),
                20 => Out::V(x.to_num::<U128F0>().raw()),
                _ => Out::C(0xffff),
            }
        }
        pub fn parse<F: Lay>(radix: u32, s: &str) -> Out {
            let r = match radix {
                2 => W::<F>::from_str_binary(s),
                8 => W::<F>::from_str_octal(s),
                16 => W::<F>::from_str_hex(s),
                _ => s.parse::<W<F>>(),
            };
            match r {
                Ok(x) => o(x),
                // Wrapping never reports overflow: any error here is "not a literal"
                Err(_) => Out::E(1),
            }
        }
    };
}
