//! `transx`: the transcendental functions on every supported layout that `trans` does not compile (121 signed
//! same-type pairs, widening pairs on structured source/destination sets, the unsigned instantiations of sqrt and
//! powi, 121 trigonometric types). Same driver and oracles as `trans`; thinner operand sets in the quick tier.
#![allow(unused_imports, dead_code)]
#[macro_use]
#[path = "../../trans/src/driver.rs"]
mod driver;
#[path = "../../trans/src/oracle.rs"]
mod oracle;
mod tables;
pub use driver::TOut;
fn main() {
    driver::main("transx", tables::pairs(), tables::trigs(), true);
}
