//! Verdicts for the transcendental functions: the error bounds of C13..C16 evaluated against
//! exact integer brackets (sqrt), f64 libm with a guard band (32-bit destination types) or the
//! 256-bit reference of vcore::hp.
use crate::TOut;
use vcore::hp::{self, Hp};
use vcore::{Layout, Z};

pub enum Verdict {
    /// within the bound; ratio = error / allowed error
    Fine { ratio: f64 },
    /// the property says nothing about this outcome
    Unjudged,
    /// the request is mathematically undefined: Err required (C12)
    MustErr(String),
    Bad { diff: &'static str, expected: String, note: String, ratio: f64 },
}

fn bad(diff: &'static str, expected: String, note: String, ratio: f64) -> Verdict {
    Verdict::Bad { diff, expected, note, ratio }
}

/// operand converted to the destination type (D::from(S) is exact: more fractional bits)
fn to_dst(s: Layout, d: Layout, a: u128) -> Z {
    assert!(d.frac >= s.frac);
    s.z(a).shl(d.frac - s.frac)
}

/// is the reciprocal trunc(2^(2F) / X) of the positive operand X representable in d?
fn reciprocal_fits(d: Layout, x: &Z) -> bool {
    let q = Z::pow2(2 * d.frac).divrem_trunc(*x).0;
    d.fits(&q)
}

fn hp_of(z: &Z, frac: u32) -> Hp {
    Hp::from_z(z, frac)
}
fn ulp(d: Layout) -> Hp {
    Hp::one().shr(d.frac)
}
fn pow2_neg(k: u32) -> Hp {
    Hp::one().shr(k)
}
/// slack granted to the reference itself (always on the side of silence)
fn ref_slack() -> Hp {
    Hp::one().shr(200)
}
fn ratio(err: Hp, bound: Hp) -> f64 {
    let b = bound.to_f64();
    if b == 0.0 {
        if err.is_zero() {
            0.0
        } else {
            f64::INFINITY
        }
    } else {
        err.to_f64() / b
    }
}
fn within(err: Hp, bound: Hp) -> bool {
    err.le(&bound.add(ref_slack()))
}

pub fn sqrt_verdict(s: Layout, d: Layout, a: u128, out: TOut) -> Verdict {
    let xs = s.z(a);
    if xs.is_neg() {
        return match out {
            TOut::Err => Verdict::Fine { ratio: 0.0 },
            _ => Verdict::MustErr("square root of a negative number".into()),
        };
    }
    let x = to_dst(s, d, a);
    let one = Z::pow2(d.frac);
    match out {
        TOut::Ok(r) => {
            let rz = d.z(r);
            if rz.is_neg() {
                return bad("negative-result", "a non-negative root".into(), String::new(), f64::INFINITY);
            }
            if x.is_zero() && !rz.is_zero() {
                return bad("sqrt(0)", "exactly 0".into(), String::new(), f64::INFINITY);
            }
            if x == one && rz != one {
                return bad("sqrt(1)", "exactly 1".into(), String::new(), f64::INFINITY);
            }
            // |R - sqrt(X * 2^F)| <= 4  <=>  (R-4)^2 <= X*2^F <= (R+4)^2   (R-4 clipped at 0)
            let t = x.shl(d.frac);
            let four = Z::from_u128(4);
            let lo = if rz.lt(&four) { Z::ZERO } else { rz.sub(four) };
            let hi = rz.add(four);
            let ok = lo.mul(lo).le(&t) && t.le(&hi.mul(hi));
            // error in ulps for the evidence: |R - floor(sqrt(t))| approximated in f64
            let rt = t.to_f64_approx().sqrt();
            let err_ulps = (rz.to_f64_approx() - rt).abs();
            if ok {
                Verdict::Fine { ratio: (err_ulps / 4.0).min(1.0) }
            } else {
                // exact distance to floor(sqrt(t)) for the report (bit-by-bit integer square root)
                let mut root = Z::ZERO;
                for b in (0..=(t.bits() / 2 + 1)).rev() {
                    let c = root.add(Z::pow2(b));
                    if c.mul(c).le(&t) {
                        root = c;
                    }
                }
                let off = rz.sub(root).abs();
                let off_f = off.to_f64_approx();
                bad("accuracy", "within 4 ulp of the true square root".into(), format!("operand = {} * 2^-{}; result is {} ulp from floor(sqrt)", x, d.frac, off.to_decimal()), (off_f / 4.0).max(err_ulps / 4.0))
            }
        }
        TOut::Err => {
            // Err only for x < 0 (handled above) or 0 < x < 1 whose reciprocal is not representable
            if !x.is_zero() && x.lt(&one) && !reciprocal_fits(d, &x) {
                Verdict::Fine { ratio: 0.0 }
            } else {
                bad("spurious-err", "Ok: the operand is non-negative and its reciprocal is representable".into(), format!("operand = {} * 2^-{}", x, d.frac), f64::INFINITY)
            }
        }
        _ => Verdict::Unjudged,
    }
}

pub fn log_verdict(s: Layout, d: Layout, a: u128, out: TOut, natural: bool) -> Verdict {
    let xs = s.z(a);
    if xs.is_neg() || xs.is_zero() {
        return match out {
            TOut::Err => Verdict::Fine { ratio: 0.0 },
            _ => Verdict::MustErr("logarithm of a non-positive number".into()),
        };
    }
    let x = to_dst(s, d, a);
    let one = Z::pow2(d.frac);
    match out {
        TOut::Ok(r) => {
            let rz = d.z(r);
            // sign rule (stated for log2 only)
            if !natural && ((x.le(&one) && !rz.is_neg() && !rz.is_zero()) || (one.le(&x) && rz.is_neg())) {
                return bad("sign", "result <= 0 for x <= 1 and >= 0 for x >= 1".into(), format!("operand = {} * 2^-{}", x, d.frac), f64::INFINITY);
            }
            if !natural && x.bits() > 0 && x == Z::pow2(x.bits() - 1) {
                // exact power of two: log2 must be exact
                let k = x.bits() as i64 - 1 - d.frac as i64;
                let want = Z::from_i128(k as i128).shl(d.frac);
                if rz != want {
                    return bad("log2-of-power-of-two", format!("exactly {}", k), format!("operand = 2^{}", k), f64::INFINITY);
                }
            }
            let (err, bound) = if d.w <= 32 {
                // f64 libm with a guard band
                let xf = x.to_f64_approx() / (1u64 << d.frac) as f64;
                let rf = rz.to_f64_approx() / (1u64 << d.frac) as f64;
                let reff = if natural { xf.ln() } else { xf.log2() };
                let u = 1.0 / (1u64 << d.frac) as f64;
                let bound = if natural { reff.abs() / 8388608.0 + 8.0 * u } else { 8.0 * u };
                let err = (rf - reff).abs();
                let guard = bound * 1e-9 + reff.abs() * 1e-12 + 1e-13;
                return if err <= bound + guard {
                    Verdict::Fine { ratio: err / bound }
                } else {
                    bad("accuracy", format!("within {:.3e} of {:.12}", bound, reff), format!("operand = {:.12}", xf), err / bound)
                };
            } else {
                let xh = hp_of(&x, d.frac);
                let reference = if natural { hp::ln(xh) } else { hp::log2(xh) };
                let rh = hp_of(&rz, d.frac);
                let bound = if natural { reference.abs().shr(23).add(ulp(d).mul_small(8)) } else { ulp(d).mul_small(8) };
                (rh.sub(reference).abs(), bound)
            };
            if within(err, bound) {
                Verdict::Fine { ratio: ratio(err, bound) }
            } else {
                bad("accuracy", format!("within {} of the true logarithm", if natural { "2^-23 |ln x| + 8 ulp" } else { "8 ulp" }), format!("operand = {} * 2^-{}; error / allowed = {:.4}", x, d.frac, ratio(err, bound)), ratio(err, bound))
            }
        }
        TOut::Err => {
            if x.lt(&one) && !reciprocal_fits(d, &x) {
                Verdict::Fine { ratio: 0.0 }
            } else {
                bad("spurious-err", "Ok: the operand is positive and its reciprocal is representable".into(), format!("operand = {} * 2^-{}", x, d.frac), f64::INFINITY)
            }
        }
        _ => Verdict::Unjudged,
    }
}

/// e^t for an Hp exponent; None when it is astronomically large (> 2^400), Some(0) when tiny
fn exp_ref(t: Hp) -> Option<Hp> {
    let lim = Hp::from_int(270);
    if lim.lt(&t) {
        return None;
    }
    if t.lt(&lim.neg()) {
        return Some(Hp::zero());
    }
    Some(hp::exp(t))
}

/// C12: "results that do not fit yield Err". Decided with a wide margin on the side of silence: the true value less
/// the error the accuracy property would allow still exceeds twice the largest value of the type.
fn does_not_fit(d: Layout, reference: Hp, bound: Hp) -> bool {
    let max2 = hp_of(&d.z(d.max_raw()), d.frac).mul_small(2).add(Hp::one());
    max2.lt(&reference.abs().sub(bound))
}

pub fn exp_verdict(s: Layout, d: Layout, a: u128, out: TOut) -> Verdict {
    let TOut::Ok(r) = out else { return Verdict::Unjudged };
    let x = to_dst(s, d, a);
    let rz = d.z(r);
    if d.w <= 32 {
        let xf = x.to_f64_approx() / (1u64 << d.frac) as f64;
        let rf = rz.to_f64_approx() / (1u64 << d.frac) as f64;
        let reff = xf.exp();
        let u = 1.0 / (1u64 << d.frac) as f64;
        let bound = reff / 1048576.0 + 64.0 * u;
        let err = (rf - reff).abs();
        let guard = bound * 1e-9 + reff * 1e-12;
        return if err <= bound + guard { Verdict::Fine { ratio: err / bound } } else { bad("accuracy", format!("within {:.3e} of {:.9e}", bound, reff), format!("operand = {:.12}", xf), err / bound) };
    }
    let xh = hp_of(&x, d.frac);
    let rh = hp_of(&rz, d.frac);
    match exp_ref(xh) {
        None => bad("accuracy", "Err: e^x is far beyond the range of the type".into(), format!("operand = {} * 2^-{}", x, d.frac), f64::INFINITY),
        Some(reference) => {
            let bound = reference.shr(20).add(ulp(d).mul_small(64));
            if does_not_fit(d, reference, bound) {
                return bad("accuracy", "Err: e^x does not fit the type".into(), format!("operand about {:.6}; e^x is about {:.6e}", xh.to_f64(), reference.to_f64()), f64::INFINITY);
            }
            let err = rh.sub(reference).abs();
            if within(err, bound) {
                Verdict::Fine { ratio: ratio(err, bound) }
            } else {
                bad("accuracy", "within 2^-20 e^x + 64 ulp of e^x".into(), format!("operand = {} * 2^-{} (about {:.6}); e^x is about {:.6e}; error / allowed = {:.4}", x, d.frac, xh.to_f64(), reference.to_f64(), ratio(err, bound)), ratio(err, bound))
            }
        }
    }
}

pub fn pow_verdict(s: Layout, d: Layout, a: u128, b: u128, out: TOut) -> Verdict {
    let xs = s.z(a);
    let ys = s.z(b);
    let one_s = Z::pow2(s.frac);
    let x = to_dst(s, d, a);
    // conventions
    if xs.is_zero() {
        return match out {
            TOut::Ok(0) => Verdict::Fine { ratio: 0.0 },
            _ => bad("convention", "0^y = 0".into(), String::new(), f64::INFINITY),
        };
    }
    if ys.is_zero() {
        return match out {
            TOut::Ok(r) if d.z(r) == Z::pow2(d.frac) => Verdict::Fine { ratio: 0.0 },
            _ => bad("convention", "x^0 = 1".into(), String::new(), f64::INFINITY),
        };
    }
    if ys == one_s {
        return match out {
            TOut::Ok(r) if d.z(r) == x => Verdict::Fine { ratio: 0.0 },
            _ => bad("convention", "x^1 = x".into(), String::new(), f64::INFINITY),
        };
    }
    if xs.is_neg() {
        // undefined only for a fractional exponent; an integral power of a negative base is defined and the
        // properties say nothing about it (C15 judges positive bases only)
        let integral = ys.shr_floor(s.frac).shl(s.frac) == ys;
        if integral {
            return Verdict::Unjudged;
        }
        return match out {
            TOut::Err => Verdict::Fine { ratio: 0.0 },
            _ => Verdict::MustErr("fractional power of a negative base".into()),
        };
    }
    let TOut::Ok(r) = out else { return Verdict::Unjudged };
    let rz = d.z(r);
    let xh = hp_of(&x, d.frac);
    let yh = hp_of(&ys, s.frac);
    let t = yh.mul(hp::ln(xh));
    let rh = hp_of(&rz, d.frac);
    match exp_ref(t) {
        None => bad("accuracy", "Err: x^y is far beyond the range of the type".into(), format!("x = {:.6e}, y = {:.6e}", xh.to_f64(), yh.to_f64()), f64::INFINITY),
        Some(reference) => {
            // relative 2^-18 + |y ln x| 2^-22 + 16 |y| 2^-F, plus 64 ulp
            let rel = Hp::one().shr(18).add(t.abs().shr(22)).add(yh.abs().mul_small(16).shr(d.frac));
            let bound = rel.mul(reference).add(ulp(d).mul_small(64));
            if does_not_fit(d, reference, bound) {
                return bad("accuracy", "Err: x^y does not fit the type".into(), format!("x = {:.9e}, y = {:.9e}, x^y about {:.9e}", xh.to_f64(), yh.to_f64(), reference.to_f64()), f64::INFINITY);
            }
            let err = rh.sub(reference).abs();
            if within(err, bound) {
                Verdict::Fine { ratio: ratio(err, bound) }
            } else {
                bad("accuracy", "within the propagated bound of x^y".into(), format!("x = {:.9e}, y = {:.9e}, x^y about {:.9e}, result {:.9e}; error / allowed = {:.4}", xh.to_f64(), yh.to_f64(), reference.to_f64(), rh.to_f64(), ratio(err, bound)), ratio(err, bound))
            }
        }
    }
}

pub fn powi_verdict(s: Layout, d: Layout, a: u128, n: i32, out: TOut, powi: &dyn Fn(u128, i32) -> TOut) -> Verdict {
    let xs = s.z(a);
    let x = to_dst(s, d, a);
    if xs.is_zero() {
        return match out {
            TOut::Ok(0) => Verdict::Fine { ratio: 0.0 },
            _ => bad("convention", "0^n = 0".into(), String::new(), f64::INFINITY),
        };
    }
    if n == 0 {
        return match out {
            TOut::Ok(r) if d.z(r) == Z::pow2(d.frac) => Verdict::Fine { ratio: 0.0 },
            _ => bad("convention", "x^0 = 1".into(), String::new(), f64::INFINITY),
        };
    }
    if n == 1 {
        return match out {
            TOut::Ok(r) if d.z(r) == x => Verdict::Fine { ratio: 0.0 },
            _ => bad("convention", "x^1 = x".into(), String::new(), f64::INFINITY),
        };
    }
    let TOut::Ok(r) = out else { return Verdict::Unjudged };
    let rz = d.z(r);
    if n < 0 {
        if n == i32::MIN {
            return Verdict::Unjudged; // |n| is not an i32: the reciprocal rule cannot be evaluated through the API
        }
        // truncated reciprocal of powi(x, |n|)
        return match powi(a, -n) {
            TOut::Ok(p) => {
                let pz = d.z(p);
                if pz.is_zero() {
                    return bad("reciprocal", "Err: the positive power is 0".into(), String::new(), f64::INFINITY);
                }
                let want = Z::pow2(2 * d.frac).divrem_trunc(pz).0;
                if d.fits(&want) && want == rz {
                    Verdict::Fine { ratio: 0.0 }
                } else {
                    bad("reciprocal", format!("trunc(1 / powi(x, {})) = {}", -n, want), format!("powi(x, {}) = {}", -n, pz), f64::INFINITY)
                }
            }
            TOut::Cut => Verdict::Unjudged,
            other => bad("reciprocal", format!("Err, because powi(x, {}) = {}", -n, other), String::new(), f64::INFINITY),
        };
    }
    // n >= 2: within (n+1) ulp * max(1,|x|)^(n-1) of the exact x^n
    let xh = hp_of(&x, d.frac);
    let l = hp::ln(xh.abs());
    let t = l.mul_small(n as u64);
    let rh = hp_of(&rz, d.frac);
    match exp_ref(t) {
        None => bad("accuracy", "Err: x^n is far beyond the range of the type".into(), format!("x = {:.6e}, n = {}", xh.to_f64(), n), f64::INFINITY),
        Some(mag) => {
            let reference = if xh.is_neg() && n % 2 != 0 { mag.neg() } else { mag };
            let scale = if Hp::one().lt(&xh.abs()) {
                match exp_ref(l.mul_small((n - 1) as u64)) {
                    Some(s) => s,
                    None => return Verdict::Unjudged,
                }
            } else {
                Hp::one()
            };
            let bound = ulp(d).mul_small(n as u64 + 1).mul(scale);
            if does_not_fit(d, reference, bound) {
                return bad("accuracy", "Err: x^n does not fit the type".into(), format!("x = {:.12e}, n = {}, x^n about {:.12e}, result {:.12e}", xh.to_f64(), n, reference.to_f64(), rh.to_f64()), f64::INFINITY);
            }
            let err = rh.sub(reference).abs();
            // the reference carries a relative error of about 2^-230 n
            let slack = reference.abs().shr(200);
            if err.le(&bound.add(slack).add(ref_slack())) {
                Verdict::Fine { ratio: ratio(err, bound) }
            } else {
                bad("accuracy", "within (n+1) ulp * max(1,|x|)^(n-1) of x^n".into(), format!("x = {:.12e}, n = {}, x^n about {:.12e}, result {:.12e}; error / allowed = {:.4}", xh.to_f64(), n, reference.to_f64(), rh.to_f64(), ratio(err, bound)), ratio(err, bound))
            }
        }
    }
}

pub fn trig_verdict(t: Layout, func: usize, a: u128, out: TOut) -> Verdict {
    let TOut::Ok(r) = out else { return Verdict::Unjudged };
    let x = t.z(a);
    let rz = t.z(r);
    // domain of the property: |x| <= 200 (sin, cos), |x| <= 100 (tan)
    let lim = Z::from_u128(if func == 2 { 100 } else { 200 }).shl(t.frac);
    if lim.lt(&x.abs()) {
        return Verdict::Unjudged;
    }
    if t.w <= 32 {
        let u = (1u64 << t.frac) as f64;
        let xf = x.to_f64_approx() / u;
        let rf = rz.to_f64_approx() / u;
        return match func {
            0 | 1 => {
                let reff = if func == 0 { xf.sin() } else { xf.cos() };
                let bound = 1.0 / 65536.0;
                let err = (rf - reff).abs();
                if rf.abs() > 1.0 + bound + 1e-12 {
                    return bad("range", "a value in [-1 - 2^-16, 1 + 2^-16]".into(), format!("angle = {:.9}", xf), f64::INFINITY);
                }
                if err <= bound + 1e-11 {
                    Verdict::Fine { ratio: err / bound }
                } else {
                    bad("accuracy", format!("within 2^-16 of {:.9}", reff), format!("angle = {:.9}", xf), err / bound)
                }
            }
            _ => {
                let reff = xf.tan();
                if reff.abs() > 64.0 * (1.0 - 1e-9) {
                    return Verdict::Unjudged; // at or beyond |tan| = 64 (guard band on the side of silence)
                }
                let bound = (1.0 + reff * reff) / 16384.0;
                let err = (rf - reff).abs();
                if err <= bound * (1.0 + 1e-9) + 1e-11 {
                    Verdict::Fine { ratio: err / bound }
                } else {
                    bad("accuracy", format!("within 2^-14 (1 + tan^2) of {:.9}", reff), format!("angle = {:.9}", xf), err / bound)
                }
            }
        };
    }
    let xh = hp_of(&x, t.frac);
    let rh = hp_of(&rz, t.frac);
    let (sn, cs) = hp::sin_cos(xh);
    match func {
        0 | 1 => {
            let reference = if func == 0 { sn } else { cs };
            let bound = pow2_neg(16);
            if Hp::one().add(bound).add(ref_slack()).lt(&rh.abs()) {
                return bad("range", "a value in [-1 - 2^-16, 1 + 2^-16]".into(), format!("angle = {:.12}", xh.to_f64()), f64::INFINITY);
            }
            let err = rh.sub(reference).abs();
            if within(err, bound) {
                Verdict::Fine { ratio: ratio(err, bound) }
            } else {
                bad("accuracy", format!("within 2^-16 of {:.12}", reference.to_f64()), format!("angle = {:.12}, result {:.12}", xh.to_f64(), rh.to_f64()), ratio(err, bound))
            }
        }
        _ => {
            // |tan x| <= 64  <=>  |sin| <= 64 |cos|
            if cs.abs().mul_small(64).lt(&sn.abs().add(ref_slack())) {
                return Verdict::Unjudged;
            }
            let reference = sn.div(cs);
            let bound = Hp::one().add(reference.mul(reference)).shr(14);
            let err = rh.sub(reference).abs();
            if within(err, bound) {
                Verdict::Fine { ratio: ratio(err, bound) }
            } else {
                bad("accuracy", format!("within 2^-14 (1 + tan^2 x) of {:.12}", reference.to_f64()), format!("angle = {:.12}, result {:.12}", xh.to_f64(), rh.to_f64()), ratio(err, bound))
            }
        }
    }
}

/// is the angle inside the domain on which C12/C16 speak about this function?
pub fn in_trig_domain(t: Layout, func: usize, a: u128) -> bool {
    let x = t.z(a);
    let lim = Z::from_u128(if func == 2 { 100 } else { 200 }).shl(t.frac);
    if lim.lt(&x.abs()) {
        return false;
    }
    if func != 2 {
        return true;
    }
    let (sn, cs) = hp::sin_cos(hp_of(&x, t.frac));
    // |tan x| <= 64 with a small margin on the side of silence
    sn.abs().add(Hp::one().shr(40)).le(&cs.abs().mul_small(64))
}

/// Known-finding class (cause based) for pow: the result is exp(y * ln x) with ln x carrying the
/// error C14 permits (2^-23 |ln x| + 8 ulp). When |y| times that error reaches 1/8 the error of the
/// exponent is no longer small and e^delta - 1 is not covered by the linearised bound of C15.
pub fn pow_exponent_error_amplified(s: Layout, d: Layout, a: u128, b: u128) -> bool {
    let xs = s.z(a);
    if xs.is_neg() || xs.is_zero() {
        return false;
    }
    let x = to_dst(s, d, a);
    let yh = hp_of(&s.z(b), s.frac);
    let l = hp::ln(hp_of(&x, d.frac));
    let log_err = l.abs().shr(23).add(ulp(d).mul_small(8));
    // y * log_err may be astronomically large: compare in f64
    yh.abs().to_f64() * log_err.to_f64() >= 0.125
}

/// Inside the region the finding explains a result only if it is what exp(y * l') gives for SOME l' within the
/// error C14 permits for ln x (widened by the bounds of exp and 64 ulp): anything else is a different failure.
pub fn pow_result_explained_by_log_error(s: Layout, d: Layout, a: u128, b: u128, r: u128) -> bool {
    let x = to_dst(s, d, a);
    let yh = hp_of(&s.z(b), s.frac);
    let l = hp::ln(hp_of(&x, d.frac));
    // the library multiplies y by its (rounded) ln: one more ulp of slack on the logarithm
    let delta = l.abs().shr(23).add(ulp(d).mul_small(10));
    let (t1, t2) = (yh.mul(l.sub(delta)), yh.mul(l.add(delta)));
    let (tlo, thi) = if t1.lt(&t2) { (t1, t2) } else { (t2, t1) };
    let rh = hp_of(&d.z(r), d.frac);
    let slack = ulp(d).mul_small(128);
    // lower edge
    let lo_ok = match exp_ref(tlo) {
        None => false, // even the smallest admissible exponent overflows: no Ok result is explained
        Some(e) => e.sub(e.shr(17)).sub(slack).le(&rh),
    };
    let hi_ok = match exp_ref(thi) {
        None => true,
        Some(e) => rh.le(&e.add(e.shr(17)).add(slack)),
    };
    lo_ok && hi_ok
}

pub const KF_POW: &str = "pow-exponent-error-amplified";

pub fn selftest() {
    // the verdict functions on known-good synthetic results
    let d = Layout::new(64, 32, true);
    // sqrt(4) = 2
    assert!(matches!(sqrt_verdict(d, d, 4u128 << 32, TOut::Ok(2u128 << 32)), Verdict::Fine { .. }));
    assert!(matches!(sqrt_verdict(d, d, 4u128 << 32, TOut::Ok((2u128 << 32) + 5)), Verdict::Bad { .. }));
    // log2(8) = 3
    assert!(matches!(log_verdict(d, d, 8u128 << 32, TOut::Ok(3u128 << 32), false), Verdict::Fine { .. }));
    assert!(matches!(log_verdict(d, d, 8u128 << 32, TOut::Ok((3u128 << 32) + 1), false), Verdict::Bad { .. }));
    // exp(1) = 2.718281828...
    let e = (std::f64::consts::E * 4294967296.0) as u128;
    assert!(matches!(exp_verdict(d, d, 1u128 << 32, TOut::Ok(e)), Verdict::Fine { .. }));
    assert!(matches!(exp_verdict(d, d, 1u128 << 32, TOut::Ok(e + 20000)), Verdict::Bad { .. }));
    // sin(1)
    let s1 = (1f64.sin() * 4294967296.0) as u128;
    assert!(matches!(trig_verdict(d, 0, 1u128 << 32, TOut::Ok(s1)), Verdict::Fine { .. }));
    assert!(matches!(trig_verdict(d, 0, 1u128 << 32, TOut::Ok(s1 + (1 << 17))), Verdict::Bad { .. }));
    println!("trans oracle selftest ok");
}
