//! Type pairs and trigonometric types compiled into the `trans` engine (both tiers, dense operand sets).
use crate::driver::*;
use substrate_fixed::transcendental as tr;
use substrate_fixed::types::*;
use vcore::Lay;

mod t0 {
    use super::*;
    pub fn pairs() -> Vec<Pair> {
        vec![spair!(I9F23, I9F23), spair!(I9F55, I9F55), spair!(I16F48, I16F48), spair!(I32F32, I32F32), spair!(I41F23, I41F23)]
    }
}
mod t1 {
    use super::*;
    pub fn pairs() -> Vec<Pair> {
        vec![spair!(I9F119, I9F119), spair!(I40F88, I40F88), spair!(I64F64, I64F64)]
    }
}
mod t2 {
    use super::*;
    pub fn pairs() -> Vec<Pair> {
        vec![spair!(I96F32, I96F32), spair!(I105F23, I105F23), spair!(I9F23, I32F32), spair!(I9F23, I64F64)]
    }
}
mod t3 {
    use super::*;
    pub fn pairs() -> Vec<Pair> {
        vec![spair!(I32F32, I64F64), spair!(I16F48, I40F88), spair!(I9F23, I9F55), spair!(I9F23, I10F54), spair!(I9F23, I96F32)]
    }
}
mod t4 {
    use super::*;
    pub fn pairs() -> Vec<Pair> {
        vec![
            upair!(U9F23, U9F23), upair!(U9F55, U9F55), upair!(U32F32, U32F32), upair!(U9F119, U9F119), upair!(U64F64, U64F64), upair!(U96F32, U96F32), upair!(U105F23, U105F23), upair!(U9F23, U64F64), upair!(U32F32, U96F32),
            uspair!(U9F23, I32F32), uspair!(U32F32, I64F64), uspair!(U9F23, I64F64), uspair!(U32F32, I96F32),
        ]
    }
}
mod t5 {
    use super::*;
    pub fn trigs() -> Vec<Trig> {
        vec![trig!(I9F23), trig!(I9F55), trig!(I16F48), trig!(I32F32), trig!(I41F23)]
    }
}
mod t6 {
    use super::*;
    pub fn trigs() -> Vec<Trig> {
        vec![trig!(I9F119), trig!(I40F88), trig!(I64F64), trig!(I96F32), trig!(I105F23)]
    }
}
pub fn pairs() -> Vec<Pair> {
    let mut v = t0::pairs();
    v.extend(t1::pairs());
    v.extend(t2::pairs());
    v.extend(t3::pairs());
    v.extend(t4::pairs());
    v
}
pub fn trigs() -> Vec<Trig> {
    let mut v = t5::trigs();
    v.extend(t6::trigs());
    v
}

