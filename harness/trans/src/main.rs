//! `trans`: sqrt, log2, ln, exp, pow, powi, sin, cos, tan on 30 type pairs and 10 trigonometric types with dense
//! operand sets (C12..C17, C11 corpus). `transx` compiles every other eligible layout around the same driver.
#![allow(unused_imports, dead_code)]
#[macro_use]
mod driver;
mod oracle;
mod tables;
pub use driver::TOut;
fn main() {
    driver::main("trans", tables::pairs(), tables::trigs(), false);
}
