//! Driver `trans` (and `transx`, which compiles further type pairs around the same code): sqrt, log2, ln, exp, pow, powi, sin, cos, tan of `transcendental.rs` on the
//! supported type pairs. Serves C12 (totality), C13..C16 (accuracy against exact integer brackets,
//! f64 libm with a guard band for the 32-bit types, 256-bit series arithmetic otherwise), C17
//! (loop-iteration counts through the cfg(substrate_fixed_verif) tick hook) and the C11 corpus.
use crate::oracle::*;
use std::hash::Hasher;
use substrate_fixed::transcendental as tr;
use substrate_fixed::types::*;
use substrate_fixed::verif;
use vcore::alpha::{self, Tier};
use vcore::hp::{self, Hp};
use vcore::par::{run_jobs, subject};
use vcore::report::{Args, Report, Tally, Violation};
use vcore::{mask, Lay, Layout, Out, Z};

/// outcome of a Result-returning call
#[derive(Clone, Copy, Debug, PartialEq, Eq, Hash)]
pub enum TOut {
    Ok(u128),
    Err,
    Panic,
    /// iteration budget exhausted (the call was cut)
    Cut,
}
impl std::fmt::Display for TOut {
    fn fmt(&self, f: &mut std::fmt::Formatter) -> std::fmt::Result {
        match self {
            TOut::Ok(v) => write!(f, "Ok({:#x})", v),
            TOut::Err => write!(f, "Err"),
            TOut::Panic => write!(f, "panic"),
            TOut::Cut => write!(f, "cut(iteration budget exhausted)"),
        }
    }
}

pub const F1: [&str; 4] = ["sqrt", "log2", "ln", "exp"];
pub const TRIG: [&str; 3] = ["sin", "cos", "tan"];

pub struct Pair {
    pub s: Layout,
    pub d: Layout,
    /// sqrt / log2 / ln / exp; None when the function does not exist for the pair (unsigned: only sqrt)
    pub f1: fn(usize, u128) -> Option<TOut>,
    pub pow: Option<fn(u128, u128) -> TOut>,
    pub powi: Option<fn(u128, i32) -> TOut>,
}
pub struct Trig {
    pub t: Layout,
    pub f: fn(usize, u128) -> TOut,
}

/// the engine's name ("trans" / "transx"), its compiled tables, and whether it runs the thin operand sets
static ENGINE: std::sync::OnceLock<(&'static str, Vec<Pair>, Vec<Trig>, bool)> = std::sync::OnceLock::new();
fn name() -> &'static str {
    ENGINE.get().unwrap().0
}
fn pairs() -> &'static [Pair] {
    &ENGINE.get().unwrap().1
}
fn trigs() -> &'static [Trig] {
    &ENGINE.get().unwrap().2
}
/// `transx` compiles every eligible layout; its quick tier uses thinner operand sets than `trans`
fn thin() -> bool {
    ENGINE.get().unwrap().3
}

/// Watchdog for loops that carry no tick() (e.g. added by a later change): every worker publishes the start time
/// of the call in progress; a monitor thread ends the process with exit code 3 and a `HANG` line naming the
/// case if one call runs longer than HANG_SECONDS. (A call inside a ticked loop can never get there: the
/// iteration budget unwinds it first.)
pub const HANG_SECONDS: u64 = 20;
pub struct Slot {
    pub started_ms: std::sync::atomic::AtomicU64,
    /// the call in progress, as plain numbers (formatted only if the watchdog fires)
    pub w: [std::sync::atomic::AtomicU64; 7],
}
static SLOTS: std::sync::Mutex<Vec<std::sync::Arc<Slot>>> = std::sync::Mutex::new(Vec::new());
static EPOCH: std::sync::OnceLock<std::time::Instant> = std::sync::OnceLock::new();
fn now_ms() -> u64 {
    EPOCH.get_or_init(std::time::Instant::now).elapsed().as_millis() as u64 + 1
}
thread_local! {
    static MY_SLOT: std::sync::Arc<Slot> = {
        let s = std::sync::Arc::new(Slot { started_ms: std::sync::atomic::AtomicU64::new(0), w: Default::default() });
        SLOTS.lock().unwrap().push(s.clone());
        s
    };
}
fn pack(l: Layout) -> u64 {
    (l.w as u64) << 16 | (l.frac as u64) << 1 | l.signed as u64
}
fn unpack(x: u64) -> Layout {
    Layout::new((x >> 16) as u32, ((x >> 1) & 0x7fff) as u32, x & 1 == 1)
}
/// publish the call about to be made: function index into FUNCS, layouts, operands (second operand: raw bits or the i32 exponent)
#[inline]
pub fn announce(fi: usize, s: Layout, d: Layout, a: u128, b: u128) {
    use std::sync::atomic::Ordering::Relaxed;
    MY_SLOT.with(|sl| {
        sl.w[0].store(fi as u64, Relaxed);
        sl.w[1].store(pack(s), Relaxed);
        sl.w[2].store(pack(d), Relaxed);
        sl.w[3].store(a as u64, Relaxed);
        sl.w[4].store((a >> 64) as u64, Relaxed);
        sl.w[5].store(b as u64, Relaxed);
        sl.w[6].store((b >> 64) as u64, Relaxed);
    });
}
fn slot_case(s: &Slot) -> String {
    use std::sync::atomic::Ordering::Relaxed;
    let g = |i: usize| s.w[i].load(Relaxed);
    let fi = g(0) as usize;
    let (sl, dl) = (unpack(g(1)), unpack(g(2)));
    let a = (g(4) as u128) << 64 | g(3) as u128;
    let b = (g(6) as u128) << 64 | g(5) as u128;
    match fi {
        4 => format!("trans pow {} {} {:#x} {:#x}", sl.name(), dl.name(), a, b),
        5 => format!("trans powi {} {} {:#x} {}", sl.name(), dl.name(), a, b as u32 as i32),
        _ => format!("trans {} {} {} {:#x}", FUNCS[fi], sl.name(), dl.name(), a),
    }
}
fn start_watchdog() {
    now_ms();
    std::thread::spawn(|| loop {
        std::thread::sleep(std::time::Duration::from_millis(500));
        let now = now_ms();
        for s in SLOTS.lock().unwrap().iter() {
            let st = s.started_ms.load(std::sync::atomic::Ordering::Relaxed);
            if st != 0 && now > st + HANG_SECONDS * 1000 {
                println!("HANG case={} seconds={}", slot_case(s), (now - st) / 1000);
                use std::io::Write;
                let _ = std::io::stdout().flush();
                std::process::exit(3);
            }
        }
    });
}

fn budget_call<R>(limit: u64, f: impl FnOnce() -> R) -> (Option<R>, u64, bool) {
    verif::reset(limit);
    MY_SLOT.with(|s| s.started_ms.store(now_ms(), std::sync::atomic::Ordering::Relaxed));
    let r = subject(f);
    MY_SLOT.with(|s| s.started_ms.store(0, std::sync::atomic::Ordering::Relaxed));
    let t = verif::ticks();
    verif::reset(u64::MAX);
    let cut = r.is_none() && t > limit;
    (r, t, cut)
}

thread_local! {
    static LIMIT: std::cell::Cell<u64> = std::cell::Cell::new(u64::MAX);
    static LAST_TICKS: std::cell::Cell<u64> = std::cell::Cell::new(0);
}
fn set_limit(l: u64) {
    LIMIT.with(|c| c.set(l));
}
fn last_ticks() -> u64 {
    LAST_TICKS.with(|c| c.get())
}
pub fn run_res<D: Lay, E>(f: impl FnOnce() -> Result<D, E>) -> TOut {
    let (r, t, cut) = budget_call(LIMIT.with(|c| c.get()), f);
    LAST_TICKS.with(|c| c.set(t));
    match r {
        Some(Ok(d)) => TOut::Ok(d.raw()),
        Some(Err(_)) => TOut::Err,
        None => {
            if cut {
                TOut::Cut
            } else {
                TOut::Panic
            }
        }
    }
}
pub fn run_val<D: Lay>(f: impl FnOnce() -> D) -> TOut {
    let (r, t, cut) = budget_call(LIMIT.with(|c| c.get()), f);
    LAST_TICKS.with(|c| c.set(t));
    match r {
        Some(d) => TOut::Ok(d.raw()),
        None => {
            if cut {
                TOut::Cut
            } else {
                TOut::Panic
            }
        }
    }
}

#[macro_export]
macro_rules! spair {
    ($S:ty, $D:ty) => {
        Pair {
            s: <$S as Lay>::LAYOUT,
            d: <$D as Lay>::LAYOUT,
            f1: |func, a| {
                announce(func, <$S as Lay>::LAYOUT, <$D as Lay>::LAYOUT, a, 0);
                let x = <$S as Lay>::from_raw(a);
                Some(match func {
                    0 => run_res::<$D, _>(|| tr::sqrt::<$S, $D>(x)),
                    1 => run_res::<$D, _>(|| tr::log2::<$S, $D>(x)),
                    2 => run_res::<$D, _>(|| tr::ln::<$S, $D>(x)),
                    _ => run_res::<$D, _>(|| tr::exp::<$S, $D>(x)),
                })
            },
            pow: Some(|a, b| {
                announce(4, <$S as Lay>::LAYOUT, <$D as Lay>::LAYOUT, a, b);
                let (x, y) = (<$S as Lay>::from_raw(a), <$S as Lay>::from_raw(b));
                run_res::<$D, _>(|| tr::pow::<$S, $D>(x, y))
            }),
            powi: Some(|a, n| {
                announce(5, <$S as Lay>::LAYOUT, <$D as Lay>::LAYOUT, a, n as u32 as u128);
                let x = <$S as Lay>::from_raw(a);
                run_res::<$D, _>(|| tr::powi::<$S, $D>(x, n))
            }),
        }
    };
}
#[macro_export]
macro_rules! upair {
    ($S:ty, $D:ty) => {
        Pair {
            s: <$S as Lay>::LAYOUT,
            d: <$D as Lay>::LAYOUT,
            f1: |func, a| {
                announce(func, <$S as Lay>::LAYOUT, <$D as Lay>::LAYOUT, a, 0);
                let x = <$S as Lay>::from_raw(a);
                match func {
                    0 => Some(run_res::<$D, _>(|| tr::sqrt::<$S, $D>(x))),
                    _ => None,
                }
            },
            pow: None,
            powi: None,
        }
    };
}
/// unsigned source, signed destination: sqrt and powi exist (log2/ln/exp/pow need a signed source)
#[macro_export]
macro_rules! uspair {
    ($S:ty, $D:ty) => {
        Pair {
            s: <$S as Lay>::LAYOUT,
            d: <$D as Lay>::LAYOUT,
            f1: |func, a| {
                announce(func, <$S as Lay>::LAYOUT, <$D as Lay>::LAYOUT, a, 0);
                let x = <$S as Lay>::from_raw(a);
                match func {
                    0 => Some(run_res::<$D, _>(|| tr::sqrt::<$S, $D>(x))),
                    _ => None,
                }
            },
            pow: None,
            powi: Some(|a, n| {
                announce(5, <$S as Lay>::LAYOUT, <$D as Lay>::LAYOUT, a, n as u32 as u128);
                let x = <$S as Lay>::from_raw(a);
                run_res::<$D, _>(|| tr::powi::<$S, $D>(x, n))
            }),
        }
    };
}
#[macro_export]
macro_rules! trig {
    ($T:ty) => {
        Trig {
            t: <$T as Lay>::LAYOUT,
            f: |func, a| {
                announce(6 + func, <$T as Lay>::LAYOUT, <$T as Lay>::LAYOUT, a, 0);
                let x = <$T as Lay>::from_raw(a);
                match func {
                    0 => run_val::<$T>(|| tr::sin::<$T>(x)),
                    1 => run_val::<$T>(|| tr::cos::<$T>(x)),
                    _ => run_val::<$T>(|| tr::tan::<$T>(x)),
                }
            },
        }
    };
}

// ------------------------------------------------------------------ domains

fn push_unique(v: &mut Vec<u128>, seen: &mut std::collections::HashSet<u128>, x: u128, m: u128) {
    let x = x & m;
    if seen.insert(x) {
        v.push(x);
    }
}

/// operands of a layout: boundary alphabet, small integers, neighbourhood of one, a grid of
/// 2^g multiples per octave, both signs
fn operands(l: Layout, g: u32, tier: Tier) -> Vec<u128> {
    operands_n(l, g, tier, 300)
}
/// `nmax`: the largest small integer included (300 for the dense sets, 20 for the thin sets of `transx`)
fn operands_n(l: Layout, g: u32, tier: Tier, nmax: u128) -> Vec<u128> {
    let m = mask(l.w);
    let mut v = vec![];
    let mut seen = std::collections::HashSet::new();
    for x in alpha::boundary(l, tier) {
        push_unique(&mut v, &mut seen, x, m);
    }
    let top = if l.signed { l.w - 1 } else { l.w };
    let one = 1u128 << l.frac;
    for n in 0..=nmax {
        // every small integer (and integer + 1/2) that the type can hold
        if l.frac < 128 && n < (1u128 << (top - l.frac).min(120)) {
            push_unique(&mut v, &mut seen, n << l.frac, m);
            if l.frac >= 1 {
                push_unique(&mut v, &mut seen, (n << l.frac) + (one >> 1), m);
            }
            if l.signed {
                push_unique(&mut v, &mut seen, (n << l.frac).wrapping_neg(), m);
            }
        }
    }
    // 1 +- 2^-k for every k: bases whose powers grow (or decay) at every rate between "not at all" and "doubling"
    if l.frac < 128 && l.frac + 1 < top + 1 {
        // (every k for the unary operand sets, every second k for the thinner base sets of pow / powi)
        for k in (1..=l.frac).step_by(if g <= 1 { 2 } else { 1 }) {
            let e = 1u128 << (l.frac - k);
            push_unique(&mut v, &mut seen, one + e, m);
            push_unique(&mut v, &mut seen, one - e, m);
            if l.signed {
                push_unique(&mut v, &mut seen, (one + e).wrapping_neg(), m);
            }
        }
    }
    // 2^e / k rounded both ways, for small k that are not powers of two: values with a periodic binary expansion, whose
    // reciprocal (powi with a negative exponent, the inversion branches of sqrt and log2) is an integer multiple of a
    // power of two less a hair -- quotient digits of the underlying division at the top of their range
    {
        let estep = if g <= 1 { 6 } else { 2 };
        for e in (l.frac.saturating_sub(60)..top).step_by(estep) {
            let ks: &[u128] = if g <= 1 { &[3, 7, 13, 100] } else { &[3, 5, 7, 9, 11, 13, 15, 17, 100] };
            for &k in ks {
                let q = (1u128 << e) / k;
                push_unique(&mut v, &mut seen, q, m);
                push_unique(&mut v, &mut seen, q + 1, m);
            }
        }
    }
    for j in 0..=4u128 {
        push_unique(&mut v, &mut seen, one + j, m);
        push_unique(&mut v, &mut seen, one - j, m);
        push_unique(&mut v, &mut seen, 2 * one + j, m);
        push_unique(&mut v, &mut seen, 2 * one - j, m);
    }
    for k in 0..top {
        let p = 1u128 << k;
        let steps = 1u128 << g.min(k);
        for j in 0..steps {
            let x = p + (p >> g.min(k)) * j;
            push_unique(&mut v, &mut seen, x, m);
            if l.signed {
                push_unique(&mut v, &mut seen, x.wrapping_neg(), m);
            }
        }
    }
    v
}

/// Operands whose base-two logarithm is a dyadic rational k + j/2^m (m <= 3, thorough 5): the two representable
/// neighbours on either side of 2^(k + j/2^m) for every k the layout can hold. These are the inputs on which the
/// square-and-compare loop of log2 meets its comparison against two with (near) equality, and where the binary
/// expansion of the true result terminates early.
fn dyadic_log_operands(l: Layout, tier: Tier) -> Vec<u128> {
    dyadic_log_operands_m(l, if tier == Tier::Quick { 3u32 } else { 5 })
}
fn dyadic_log_operands_m(l: Layout, mbits: u32) -> Vec<u128> {
    use vcore::hp::{self, Hp};
    let m = mask(l.w);
    let top = if l.signed { l.w - 1 } else { l.w };
    let mut v = vec![];
    let mut seen = std::collections::HashSet::new();
    for j in 1..(1u64 << mbits) {
        // 2^(j / 2^mbits) in [1, 2), 256 fractional bits
        let r: Hp = hp::exp(hp::ln2().mul_small(j).shr(mbits));
        for e in 0..top {
            // floor(r * 2^e) as raw bits: the value is r * 2^(e - frac)
            let fl = r.0.shr_floor(hp::HF - e).low128();
            for d in [0u128, 1, 2] {
                let Some(hi) = fl.checked_add(d) else { continue };
                if top == 128 || hi >> top == 0 {
                    push_unique(&mut v, &mut seen, hi, m);
                }
                if d < 2 && fl >= d {
                    push_unique(&mut v, &mut seen, fl - d, m);
                }
            }
        }
    }
    v
}

/// Operands related to their own square root: (m/2)^2 with offsets of 0, +-1, +-2, +-(m-1), +-m, +-(m+1), +-2m, +-3m and
/// +-10m ulp. Near these the truncated Newton iteration of sqrt oscillates between two neighbours, and the
/// division operand / l of its last steps has a quotient digit estimate at the top of its range (the running
/// remainder shares its high half with the divisor).
fn square_operands(l: Layout, mmax: u128) -> Vec<u128> {
    let m = mask(l.w);
    let top = if l.signed { l.w - 1 } else { l.w };
    let mut v = vec![];
    let mut seen = std::collections::HashSet::new();
    if l.frac < 2 || l.frac >= 126 {
        return v;
    }
    for h in 2..=mmax {
        // (h/2)^2 = h^2 / 4 in raw units: h^2 << (frac - 2)
        let sq = h * h;
        if sq.leading_zeros() < l.frac - 2 + (128 - top) + 1 {
            break;
        }
        let base = sq << (l.frac - 2);
        for k in [0u128, 1, 2, h - 1, h, h + 1, 2 * h, 3 * h - 1, 3 * h, 10 * h, 10] {
            push_unique(&mut v, &mut seen, base + k, m);
            if base >= k {
                push_unique(&mut v, &mut seen, base - k, m);
            }
        }
    }
    v
}

fn exponents(tier: Tier) -> Vec<i32> {
    let mut v: Vec<i32> = (-64..=64).collect();
    for k in 7..31 {
        let p = 1i32 << k;
        for d in [-1, 0, 1] {
            v.push(p + d);
            v.push(-(p + d));
        }
    }
    v.extend([i32::MIN, i32::MIN + 1, i32::MAX, i32::MAX - 1]);
    if tier == Tier::Quick {
        v.retain(|n| n.unsigned_abs() <= 20 || [31, 32, 33, 63, 64].contains(&n.unsigned_abs()) || n.unsigned_abs().is_power_of_two() || *n == i32::MIN + 1 || *n == i32::MAX || (n.unsigned_abs() + 1).is_power_of_two());
    }
    v.sort();
    v.dedup();
    v
}

fn m_mask(w: u32) -> u128 {
    mask(w)
}

fn angles(t: Layout, limit: u32, gq: u32, tier: Tier, thin: bool) -> Vec<u128> {
    let m = mask(t.w);
    let mut v = vec![];
    let mut seen = std::collections::HashSet::new();
    let lim_raw: i128 = (limit as i128) << t.frac;
    let in_range = |raw: u128| {
        let z = t.z(raw).to_i128().unwrap();
        z >= -lim_raw && z <= lim_raw
    };
    // grid
    let step: i128 = 1i128 << (t.frac - gq);
    let mut x = -lim_raw;
    while x <= lim_raw {
        push_unique(&mut v, &mut seen, x as u128, m);
        x += step;
    }
    for b in alpha::boundary(t, tier) {
        if in_range(b) {
            push_unique(&mut v, &mut seen, b, m);
        }
    }
    // angles at which the CORDIC residual becomes exactly zero after k <= 8 steps: signed sums of the first
    // table angles atan(2^-i) as the library truncates them to the type's resolution, in several periods, and
    // the same shifted by the pi/2 phase of cos and halved for tan (shortcut visible in the code: the loop has a
    // commented-out early exit on z == 0)
    {
        const ATAN: [u128; 9] = [
            0xC90FDAA22168C0000000000000000000,
            0x76B19C1586ED3C000000000000000000,
            0x3EB6EBF25901BA000000000000000000,
            0x1FD5BA9AAC2F6E000000000000000000,
            0x0FFAADDB967EF5000000000000000000,
            0x07FF556EEA5D89400000000000000000,
            0x03FFEAAB776E53600000000000000000,
            0x01FFFD555BBBA9700000000000000000,
            0x00FFFFAAAADDDDB80000000000000000,
        ];
        let tab: Vec<i128> = ATAN.iter().map(|&a| (a >> (128 - t.frac)) as i128).collect();
        // the module's I9F23 constants widened to the type
        let pi24 = hp::pi().0.shr_floor(hp::HF - 24).to_i128().unwrap(); // floor(pi * 2^24) = TWO_PI in I9F23 bits
        let two_pi = (pi24) << (t.frac - 23);
        let half_pi = (pi24 >> 2) << (t.frac - 23);
        let kmax = if thin { 4 } else if tier == Tier::Quick { 6 } else { 9 };
        for k in 1..=kmax {
            for signs in 0..(1u32 << k) {
                let mut sum: i128 = 0;
                for i in 0..k {
                    if signs >> i & 1 == 1 {
                        sum -= tab[i];
                    } else {
                        sum += tab[i];
                    }
                }
                for m in [0i128, 1, -1, 7, -25] {
                    let base = sum + m * two_pi;
                    for x in [base, base - half_pi, base + half_pi, base / 2, (base - half_pi) / 2] {
                        let r = x as u128 & m_mask(t.w);
                        if in_range(r) {
                            push_unique(&mut v, &mut seen, r, m_mask(t.w));
                        }
                    }
                }
            }
        }
    }
    // neighbourhood of every multiple of pi/2, and points approaching it (poles of tan)
    let half_pi = hp::pi().shr(1);
    for k in -130i64..=130 {
        let a = half_pi.mul_small(k.unsigned_abs());
        let a = if k < 0 { a.neg() } else { a };
        // floor to the type's resolution
        let raw = a.0.shr_floor(hp::HF - t.frac).to_i128().unwrap();
        let mut offs: Vec<i128> = vec![0, 1, -1, 2, -2, 100, -100];
        for mm in 1..=t.frac.min(24) {
            if thin && ![1, 8, 16, 23, 24].contains(&mm) {
                continue;
            }
            offs.push(1i128 << (t.frac - mm));
            offs.push(-(1i128 << (t.frac - mm)));
        }
        for o in offs {
            let r = (raw + o) as u128 & m;
            if in_range(r) {
                push_unique(&mut v, &mut seen, r, m);
            }
        }
    }
    v
}

// ------------------------------------------------------------------ exploration

#[derive(Clone, Copy, PartialEq, Eq, Debug)]
enum Prop {
    C12,
    C13,
    C14,
    C15,
    C16,
    C17,
    C11,
}

fn tick_bound(d: Layout) -> u64 {
    4 * d.w as u64 + 64
}

struct Acc {
    rep: Report,
    tally: Tally,
    dig: std::collections::hash_map::DefaultHasher,
    worst: std::collections::BTreeMap<String, f64>,
    max_ticks: std::collections::BTreeMap<String, u64>,
}
const FUNCS: [&str; 9] = ["sqrt", "log2", "ln", "exp", "pow", "powi", "sin", "cos", "tan"];
impl Acc {
    fn new() -> Acc {
        Acc { rep: Report::new(name(), "", ""), tally: Tally::new(FUNCS.len()), dig: Default::default(), worst: Default::default(), max_ticks: Default::default() }
    }
    fn count(&mut self, fi: usize, out: &TOut) {
        self.rep.transitions += 1;
        self.tally.counts[fi][match out {
            TOut::Ok(0) => 7,
            TOut::Ok(_) => 0,
            TOut::Err => 5,
            TOut::Panic => 6,
            TOut::Cut => 8,
        }] += 1;
    }
    fn viol(&mut self, key: String, diff: &str, case: String, observed: String, expected: String, note: String) {
        // known-finding class by cause: pow with an amplified exponent error
        let kf = if (diff == "accuracy" || diff == "missing-err") && case.starts_with("trans pow ") {
            let p: Vec<&str> = case.split_whitespace().collect();
            let (s, d) = (Layout::parse(p[2]).unwrap(), Layout::parse(p[3]).unwrap());
            let explained = match observed.strip_prefix("Ok(0x").and_then(|h| h.strip_suffix(')')).and_then(|h| u128::from_str_radix(h, 16).ok()) {
                Some(r) => pow_result_explained_by_log_error(s, d, hexv(p[4]), hexv(p[5]), r),
                None => false,
            };
            if explained && pow_exponent_error_amplified(s, d, hexv(p[4]), hexv(p[5])) {
                Some(KF_POW)
            } else {
                None
            }
        } else {
            None
        };
        self.rep.violation(Violation { key, diff: diff.into(), case, observed, expected, note, kf });
    }
    fn ratio(&mut self, key: &str, r: f64) {
        let e = self.worst.entry(key.to_string()).or_insert(0.0);
        if r > *e {
            *e = r;
        }
    }
}

thread_local! {
    static DUMP: std::cell::Cell<bool> = std::cell::Cell::new(false);
}

fn judge(acc: &mut Acc, prop: Prop, fi: usize, s: Layout, d: Layout, case: impl Fn() -> String, out: TOut, ticks: u64, verdict: impl FnOnce() -> Verdict) {
    if DUMP.with(|c| c.get()) {
        if !(fi == 8 && !in_trig_domain(s, 2, case_operand(&case()))) {
            println!("{}\t{}", case(), out);
        }
        return;
    }
    acc.count(fi, &out);
    let pk = format!("{}->{} {}", s.name(), d.name(), FUNCS[fi]);
    match prop {
        Prop::C11 => {
            // tan is an operation without overflow handling: outside the domain on which the property
            // promises a value (|x| <= 100, |tan x| <= 64) a profile-dependent overflow panic is permitted
            if fi == 8 && !in_trig_domain(s, 2, case_operand(&case())) {
                *acc.rep.extra.entry("tan_cases_outside_domain_not_digested".into()).or_default() += 1;
            } else {
                out.hash_into(&mut acc.dig);
            }
        }
        Prop::C17 => {
            if fi == 5 {
                return; // powi is linear in |n| by design
            }
            acc.rep.judged += 1;
            acc.tally.judged[fi] += 1;
            let e = acc.max_ticks.entry(pk.clone()).or_insert(0);
            if ticks > *e {
                *e = ticks;
            }
            let bound = tick_bound(d);
            if ticks > bound || out == TOut::Cut {
                acc.viol(pk, "iterations", case(), format!("{} loop iterations{}", ticks, if out == TOut::Cut { " (call cut at the budget)" } else { "" }), format!("at most 4 x {} + 64 = {}", d.w, bound), String::new());
            }
        }
        Prop::C12 => {
            acc.rep.judged += 1;
            acc.tally.judged[fi] += 1;
            match out {
                TOut::Panic => {
                    // sin/cos: |x| <= 200; tan: |x| <= 100 and |tan x| <= 64 (decided by the reference)
                    if fi < 6 || in_trig_domain(s, fi - 6, case_operand(&case())) {
                        acc.viol(pk, "panic", case(), "panic".into(), if fi < 6 { "Ok or Err".into() } else { "a value (no panic)".into() }, String::new());
                    } else {
                        *acc.rep.extra.entry("trig_panics_outside_the_property_domain".into()).or_default() += 1;
                    }
                }
                TOut::Cut => {
                    if fi != 5 {
                        // unbounded work is reported under C17; here the call could not be decided
                        *acc.rep.extra.entry("calls_cut_by_budget".into()).or_default() += 1;
                    } else {
                        *acc.rep.extra.entry("powi_calls_cut_by_budget".into()).or_default() += 1;
                    }
                }
                _ => match verdict() {
                    Verdict::MustErr(why) => {
                        if out != TOut::Err {
                            acc.viol(pk, "missing-err", case(), out.to_string(), "Err".into(), why);
                        }
                    }
                    // "results that do not fit yield Err": the reference says the true value is beyond the type
                    Verdict::Bad { expected, note, .. } if expected.starts_with("Err") && out != TOut::Err => {
                        acc.viol(pk, "missing-err", case(), out.to_string(), expected, note);
                    }
                    _ => {}
                },
            }
        }
        _ => {
            // accuracy properties: judge Ok results (and unjustified Err)
            if out == TOut::Panic || out == TOut::Cut {
                return;
            }
            acc.rep.judged += 1;
            acc.tally.judged[fi] += 1;
            match verdict() {
                Verdict::Fine { ratio } => acc.ratio(&pk, ratio),
                Verdict::Unjudged | Verdict::MustErr(_) => {}
                Verdict::Bad { diff, expected, note, ratio } => {
                    acc.ratio(&pk, ratio);
                    acc.viol(pk, diff, case(), out.to_string(), expected, note);
                }
            }
        }
    }
}

/// last hexadecimal operand of a replay descriptor (trig calls have exactly one)
fn case_operand(case: &str) -> u128 {
    hexv(case.split_whitespace().last().unwrap())
}

impl TOut {
    fn hash_into(&self, h: &mut impl Hasher) {
        use std::hash::Hash;
        self.hash(h);
    }
}

fn serves(prop: Prop, fi: usize) -> bool {
    match prop {
        Prop::C13 => fi == 0,
        Prop::C14 => fi == 1 || fi == 2,
        Prop::C15 => (3..=5).contains(&fi),
        Prop::C16 => fi >= 6,
        _ => true,
    }
}

fn grid_bits(l: Layout, tier: Tier) -> u32 {
    match (tier, l.w) {
        (Tier::Quick, 128) => 3,
        (Tier::Quick, _) => 5,
        (Tier::Thorough, 128) => 7,
        (Tier::Thorough, _) => 9,
    }
}

/// operand density: `trans` uses the tier as given; `transx` (every other supported layout) runs thin sets in the
/// quick tier and the quick-tier sets of `trans` in the thorough tier
fn density(tier: Tier) -> (Tier, bool) {
    if thin() {
        (Tier::Quick, tier == Tier::Quick)
    } else {
        (tier, false)
    }
}

/// a few essential values, then every `stride`-th element of a list (fixed, reproducible thinning)
fn thinned(essentials: &[u128], list: &[u128], stride: usize, m: u128) -> Vec<u128> {
    let mut v = vec![];
    let mut seen = std::collections::HashSet::new();
    for &x in essentials {
        push_unique(&mut v, &mut seen, x, m);
    }
    for &x in list.iter().step_by(stride) {
        push_unique(&mut v, &mut seen, x, m);
    }
    v
}

fn explore_pair(p: &Pair, func: usize, prop: Prop, tier: Tier, chunk: Option<(usize, usize)>) -> Acc {
    // func: 0..3 f1, 4 pow, 5 powi
    let mut acc = Acc::new();
    let (s, d) = (p.s, p.d);
    let (tier, thin) = density(tier);
    let sm = mask(s.w);
    let one = if s.frac < 128 { 1u128 << s.frac } else { 0 };
    let essentials: Vec<u128> = vec![0, one, one.wrapping_add(1), one.wrapping_sub(1), one << 1, (one << 1).wrapping_add(1), one.wrapping_add(one >> 1), one >> 1, 3u128.wrapping_mul(one), 10u128.wrapping_mul(one), one.wrapping_neg(), (one << 1).wrapping_neg(), (one >> 1).wrapping_neg(), 1, sm, s.max_raw(), s.min_raw(), s.min_raw().wrapping_add(1), s.max_raw() >> 1];
    let limit = match prop {
        Prop::C17 => tick_bound(d) + 1,
        _ => 100_000,
    };
    set_limit(limit);
    let mut ops = if thin { operands_n(s, 1, tier, 20) } else { operands(s, grid_bits(s, tier), tier) };
    if func < 4 {
        let mut seen: std::collections::HashSet<u128> = ops.iter().copied().collect();
        let dy = if thin { dyadic_log_operands_m(s, 2) } else { dyadic_log_operands(s, tier) };
        for x in dy {
            if seen.insert(x) {
                ops.push(x);
            }
        }
        if func == 3 && s.signed {
            // exp: operands next to the thresholds of the destination -- (integer bits - 1) ln 2, above which e^x does
            // not fit, and -(fractional bits) ln 2, below which it rounds to zero -- at distances 0, +-1 ulp and
            // +-2^-m of the source resolution: the running sum of the series crosses the range of the type there
            let ln2 = hp::ln2();
            let ib = (d.w - d.frac) as u64;
            for (mult, neg) in [(ib.saturating_sub(1), false), (ib.saturating_sub(2), false), (d.frac as u64, true), (d.frac as u64 + 1, true), (ib.saturating_sub(1), true)] {
                let t = ln2.mul_small(mult);
                let raw = t.0.shr_floor(hp::HF - s.frac);
                let Some(base) = raw.to_i128() else { continue };
                let base = if neg { -base } else { base };
                let mut offs: Vec<i128> = vec![0, 1, -1, 2, -2];
                for mm in 1..=s.frac.min(16) {
                    offs.push(1i128 << (s.frac - mm));
                    offs.push(-(1i128 << (s.frac - mm)));
                }
                for o in offs {
                    let z = Z::from_i128(base + o);
                    if s.fits(&z) {
                        let x = s.wrap(&z);
                        if seen.insert(x) {
                            ops.push(x);
                        }
                    }
                }
            }
        }
        if func == 0 {
            for x in square_operands(s, if thin { 24 } else if tier == Tier::Quick { 200 } else { 3000 }) {
                if seen.insert(x) {
                    ops.push(x);
                }
            }
        }
    }
    let ops: &[u128] = match chunk {
        Some((i, n)) => {
            let per = (ops.len() + n - 1) / n;
            let lo = (i * per).min(ops.len());
            let hi = ((i + 1) * per).min(ops.len());
            // leak is fine: small, per job
            Box::leak(ops[lo..hi].to_vec().into_boxed_slice())
        }
        None => Box::leak(ops.into_boxed_slice()),
    };
    if func < 4 {
        for &a in ops {
            let Some(out) = (p.f1)(func, a) else { return acc };
            acc.rep.states += 1;
            if a != 0 {
                acc.rep.nontrivial_states += 1;
            }
            let t = last_ticks();
            judge(&mut acc, prop, func, s, d, || format!("trans {} {} {} {:#x}", F1[func], s.name(), d.name(), a), out, t, || match func {
                0 => sqrt_verdict(s, d, a, out),
                1 => log_verdict(s, d, a, out, false),
                2 => log_verdict(s, d, a, out, true),
                _ => exp_verdict(s, d, a, out),
            });
        }
    } else if func == 4 {
        let Some(pow) = p.pow else { return acc };
        // bases x exponents: thinner grids
        let g = if tier == Tier::Quick { 1 } else { 3 };
        let mut bases: Vec<u128> = if thin { thinned(&essentials, &operands_n(s, 0, Tier::Quick, 20), 7, sm) } else { operands(s, g, Tier::Quick) };
        {
            // bases whose logarithm is a dyadic rational (neighbours of 2^(k + j/8)) in the octaves around one and in
            // one far octave: pow goes through log2, whose bit loop meets its comparison with equality there
            let seen: std::collections::HashSet<u128> = bases.iter().copied().collect();
            let one_bits = s.frac as i64;
            let octave = |x: u128| 127 - (x.leading_zeros() as i64) - one_bits;
            let dy = dyadic_log_operands_m(s, if thin { 1 } else { 3 });
            bases.extend(dy.into_iter().filter(|x| !seen.contains(x) && !s.is_neg(*x) && *x != 0 && [-2i64, -1, 0, 1, 9].contains(&octave(*x))));
        }
        let exps: Vec<u128> = {
            let mut v = operands(s, if tier == Tier::Quick { 0 } else { 1 }, Tier::Quick);
            // exponents of moderate size matter most
            let one = 1i128 << s.frac.min(118);
            v.retain(|&y| {
                let z = s.z(y).to_i128().unwrap();
                z.unsigned_abs() <= 300 * one as u128
            });
            // ... but the extremes of the exponent range belong to the domain too
            let seen: std::collections::HashSet<u128> = v.iter().cloned().collect();
            let mut extremes = vec![s.min_raw(), s.min_raw() + 1, s.max_raw(), s.max_raw() - 1, s.max_raw() >> 1, (s.max_raw() >> 1).wrapping_neg() & mask(s.w)];
            if s.frac + 12 < s.w {
                extremes.push(1000u128 << s.frac);
                extremes.push((1000u128 << s.frac).wrapping_neg() & mask(s.w));
            }
            for y in extremes {
                if !seen.contains(&y) {
                    v.push(y);
                }
            }
            if thin {
                let ess: Vec<u128> = essentials.iter().cloned().filter(|y| v.contains(y)).collect();
                v = thinned(&ess, &v, 11, sm);
            }
            v
        };
        let bases: Vec<u128> = match chunk {
            Some((i, n)) => bases.iter().cloned().skip(i).step_by(n).collect(),
            None => bases,
        };
        for &a in &bases {
            for &b in &exps {
                let out = pow(a, b);
                acc.rep.states += 1;
                acc.rep.nontrivial_states += 1;
                let t = last_ticks();
                judge(&mut acc, prop, 4, s, d, || format!("trans pow {} {} {:#x} {:#x}", s.name(), d.name(), a, b), out, t, || pow_verdict(s, d, a, b, out));
            }
        }
    } else {
        let Some(powi) = p.powi else { return acc };
        let g = if tier == Tier::Quick { 1 } else { 3 };
        let bases: Vec<u128> = if thin { thinned(&essentials, &operands_n(s, 0, Tier::Quick, 20), 7, sm) } else { operands(s, g, Tier::Quick) };
        let bases: Vec<u128> = match chunk {
            Some((i, n)) => bases.iter().cloned().skip(i).step_by(n).collect(),
            None => bases,
        };
        if prop == Prop::C17 {
            return acc; // powi is linear in |n| by design and not covered by C17
        }
        let mut ns = exponents(tier);
        if thin {
            ns.retain(|n| n.unsigned_abs() <= 5 || [7, 8, 15, 16, 17, 31, 32, 33, 63, 64, 65, 127, 128, 129, 255, 256, 257].contains(&n.unsigned_abs()) && *n > -34 || *n == i32::MIN || *n == i32::MIN + 1 || *n == i32::MAX);
        }
        // powi is linear in |n|: give it a budget that lets moderate exponents finish and cuts the rest
        set_limit(if tier == Tier::Quick { 30_000 } else { 250_000 });
        for &a in &bases {
            for &n in &ns {
                let out = powi(a, n);
                acc.rep.states += 1;
                acc.rep.nontrivial_states += 1;
                let t = last_ticks();
                judge(&mut acc, prop, 5, s, d, || format!("trans powi {} {} {:#x} {}", s.name(), d.name(), a, n), out, t, || powi_verdict(s, d, a, n, out, &|x, m| powi(x, m)));
            }
        }
    }
    acc
}

fn explore_trig(tg: &Trig, func: usize, prop: Prop, tier: Tier) -> Acc {
    let mut acc = Acc::new();
    let t = tg.t;
    set_limit(match prop {
        Prop::C17 => tick_bound(t) + 1,
        _ => 100_000,
    });
    let (tier, thin) = density(tier);
    let gq = if thin { 2 } else if tier == Tier::Quick { 5 } else { 10 };
    let limit = if func == 2 { 100 } else { 200 };
    for &a in &angles(t, limit, gq, tier, thin) {
        let out = (tg.f)(func, a);
        acc.rep.states += 1;
        acc.rep.nontrivial_states += 1;
        let tk = last_ticks();
        judge(&mut acc, prop, 6 + func, t, t, || format!("trans {} {} {} {:#x}", TRIG[func], t.name(), t.name(), a), out, tk, || trig_verdict(t, func, a, out));
    }
    if prop == Prop::C17 {
        // C17 quantifies over all operands: also the extremes far outside |x| <= 200
        for &a in &operands(t, 1, Tier::Quick) {
            let out = (tg.f)(func, a);
            acc.rep.states += 1;
            let tk = last_ticks();
            if prop == Prop::C17 {
                judge(&mut acc, prop, 6 + func, t, t, || format!("trans {} {} {} {:#x}", TRIG[func], t.name(), t.name(), a), out, tk, || Verdict::Unjudged);
            } else {
                acc.count(6 + func, &out);
            }
        }
    }
    acc
}

/// exhaustive sweep of all 2^32 I9F23 / U9F23 bit patterns (thorough tier), f64 reference
fn explore_exhaustive32(p: &Pair, func: usize, prop: Prop, part: u32, parts: u32) -> Acc {
    let mut acc = Acc::new();
    let (s, d) = (p.s, p.d);
    set_limit(match prop {
        Prop::C17 => tick_bound(d) + 1,
        _ => 100_000,
    });
    let per = (1u64 << 32) / parts as u64;
    let lo = part as u64 * per;
    for a in lo..lo + per {
        let a = a as u128;
        let Some(out) = (p.f1)(func, a) else { return acc };
        acc.rep.states += 1;
        acc.rep.nontrivial_states += 1;
        let t = last_ticks();
        judge(&mut acc, prop, func, s, d, || format!("trans {} {} {} {:#x}", F1[func], s.name(), d.name(), a), out, t, || match func {
            0 => sqrt_verdict(s, d, a, out),
            1 => log_verdict(s, d, a, out, false),
            2 => log_verdict(s, d, a, out, true),
            _ => exp_verdict(s, d, a, out),
        });
    }
    acc
}
fn explore_trig_exhaustive32(tg: &Trig, func: usize, prop: Prop, part: u32, parts: u32) -> Acc {
    let mut acc = Acc::new();
    let t = tg.t;
    set_limit(match prop {
        Prop::C17 => tick_bound(t) + 1,
        _ => 100_000,
    });
    let limit: i64 = if func == 2 { 100 } else { 200 };
    let lim_raw = limit << t.frac;
    let total = 2 * lim_raw + 1;
    let per = (total + parts as i64 - 1) / parts as i64;
    let lo = -lim_raw + part as i64 * per;
    let hi = (lo + per).min(lim_raw + 1);
    for x in lo..hi {
        let a = (x as i128 as u128) & mask(t.w);
        let out = (tg.f)(func, a);
        acc.rep.states += 1;
        acc.rep.nontrivial_states += 1;
        let tk = last_ticks();
        judge(&mut acc, prop, 6 + func, t, t, || format!("trans {} {} {} {:#x}", TRIG[func], t.name(), t.name(), a), out, tk, || trig_verdict(t, func, a, out));
    }
    acc
}

enum Job {
    Pair { pi: usize, func: usize, chunk: Option<(usize, usize)> },
    Trig { ti: usize, func: usize },
    Ex32 { pi: usize, func: usize, part: u32, parts: u32 },
    TrigEx32 { ti: usize, func: usize, part: u32, parts: u32 },
}

fn cmd_run(args: &Args) {
    let prop_s = args.get("prop").expect("--prop");
    let prop = match prop_s.as_str() {
        "C12" => Prop::C12,
        "C13" => Prop::C13,
        "C14" => Prop::C14,
        "C15" => Prop::C15,
        "C16" => Prop::C16,
        "C17" => Prop::C17,
        "C11" => Prop::C11,
        p => panic!("trans does not serve {}", p),
    };
    let tier = Tier::parse(&args.get("tier").unwrap_or("quick".into()));
    // the 2^32 sweeps run in both builds under C12..C17; the profile-independence pass leaves them out unless asked
    let exhaustive = tier == Tier::Thorough && !args.has("no-exhaustive") && (prop != Prop::C11 || std::env::var("VERIF_C11_FULL").is_ok());
    let t0 = std::time::Instant::now();
    let ps = pairs();
    let ts = trigs();
    let mut jobs = vec![];
    for (pi, p) in ps.iter().enumerate() {
        for func in 0..6 {
            if !serves(prop, func) {
                continue;
            }
            if !p.s.signed && !(func == 0 || (func == 5 && p.powi.is_some())) {
                continue;
            }
            let nchunks = if p.s.w == 128 || func >= 4 || tier == Tier::Thorough { 8 } else { 2 };
            for i in 0..nchunks {
                jobs.push(Job::Pair { pi, func, chunk: Some((i, nchunks)) });
            }
            if exhaustive && p.s.w == 32 && p.d.w == 32 && func < 4 {
                for part in 0..256 {
                    jobs.push(Job::Ex32 { pi, func, part, parts: 256 });
                }
            }
        }
    }
    for (ti, t) in ts.iter().enumerate() {
        for func in 0..3 {
            if !serves(prop, 6 + func) {
                continue;
            }
            jobs.push(Job::Trig { ti, func });
            if exhaustive && t.t.w == 32 {
                for part in 0..256 {
                    jobs.push(Job::TrigEx32 { ti, func, part, parts: 256 });
                }
            }
        }
    }
    let results = run_jobs(&jobs, |j| match j {
        Job::Pair { pi, func, chunk } => explore_pair(&ps[*pi], *func, prop, tier, *chunk),
        Job::Trig { ti, func } => explore_trig(&ts[*ti], *func, prop, tier),
        Job::Ex32 { pi, func, part, parts } => explore_exhaustive32(&ps[*pi], *func, prop, *part, *parts),
        Job::TrigEx32 { ti, func, part, parts } => explore_trig_exhaustive32(&ts[*ti], *func, prop, *part, *parts),
    });
    let mut rep = Report::new(name(), &prop_s, tier.name());
    let mut worst: std::collections::BTreeMap<String, f64> = Default::default();
    let mut max_ticks: std::collections::BTreeMap<String, u64> = Default::default();
    let mut digs: std::collections::BTreeMap<String, std::collections::hash_map::DefaultHasher> = Default::default();
    for (j, mut a) in jobs.iter().zip(results) {
        let name = match j {
            Job::Pair { pi, func, .. } | Job::Ex32 { pi, func, .. } => format!("{} {} {}", ps[*pi].s.name(), ps[*pi].d.name(), FUNCS[*func]),
            Job::Trig { ti, func } | Job::TrigEx32 { ti, func, .. } => format!("{} {} {}", ts[*ti].t.name(), ts[*ti].t.name(), TRIG[*func]),
        };
        digs.entry(name.clone()).or_default().write_u64(a.dig.finish());
        let cls = match j {
            Job::Pair { pi, .. } | Job::Ex32 { pi, .. } => format!("{}->{}", ps[*pi].s.name(), ps[*pi].d.name()),
            Job::Trig { ti, .. } | Job::TrigEx32 { ti, .. } => ts[*ti].t.name(),
        };
        a.rep.add_tally(&cls, &FUNCS, &a.tally);
        for (k, r) in a.worst {
            let e = worst.entry(k).or_insert(0.0);
            if r > *e {
                *e = r;
            }
        }
        for (k, r) in a.max_ticks {
            let e = max_ticks.entry(k).or_insert(0);
            if r > *e {
                *e = r;
            }
        }
        rep.merge(a.rep);
    }
    if prop == Prop::C11 {
        for (k, h) in digs {
            rep.digests.insert(k, format!("{:016x}", h.finish()));
        }
    }
    rep.layouts = (ps.len() + ts.len()) as u64;
    for (k, r) in &worst {
        rep.notes.push(format!("worst error / allowed error for {}: {:.4}", k, r));
    }
    for (k, r) in &max_ticks {
        rep.notes.push(format!("max loop iterations for {}: {}", k, r));
    }
    // samples
    let p = &ps[3];
    set_limit(100_000);
    for (func, a) in [(0usize, 2u128 << 32), (1, 10u128 << 32), (3, 5u128 << 31)] {
        if serves(prop, func) {
            let out = (p.f1)(func, a).unwrap();
            rep.samples.push(format!("trans {} {} {} {:#x} -> {} ({} loop iterations)", F1[func], p.s.name(), p.d.name(), a, out, last_ticks()));
        }
    }
    if serves(prop, 6) {
        let t = &ts[3];
        let a = 3u128 << 32;
        rep.samples.push(format!("trans sin {} {:#x} -> {} ({} loop iterations)", t.t.name(), a, (t.f)(0, a), last_ticks()));
    }
    if serves(prop, 5) {
        let a = 3u128 << 31;
        rep.samples.push(format!("trans powi {} {:#x} 7 -> {}", p.s.name(), a, (p.powi.unwrap())(a, 7)));
    }
    if exhaustive {
        rep.complete_subspaces.push("every one of the 2^32 bit patterns of I9F23 (and U9F23 for sqrt) as operand of sqrt/log2/ln/exp; every I9F23 angle with |x| <= 200 for sin/cos and |x| <= 100 for tan".into());
    }
    rep.extra.insert("type_pairs".into(), ps.len() as u64);
    rep.extra.insert("trig_types".into(), ts.len() as u64);
    rep.wall_s = t0.elapsed().as_secs_f64();
    rep.write(&args.get("out").expect("--out"));
    println!("trans prop={} tier={} profile={} states={} transitions={} judged={} mismatches={} wall={:.1}s", rep.prop, rep.tier, vcore::profile_name(), rep.states, rep.transitions, rep.judged, rep.violation_counts.values().sum::<u64>(), rep.wall_s);
}

fn hexv(s: &str) -> u128 {
    u128::from_str_radix(s.trim_start_matches("0x"), 16).expect("hex")
}

fn cmd_replay(a: &[String]) -> i32 {
    let ps = pairs();
    let ts = trigs();
    let f = a[0].as_str();
    let s = Layout::parse(&a[1]).unwrap();
    let d = Layout::parse(&a[2]).unwrap();
    set_limit(10_000_000);
    println!("profile:  {}", vcore::profile_name());
    println!("call:     {}", a.join(" "));
    let (out, v): (TOut, Verdict) = if let Some(func) = TRIG.iter().position(|x| *x == f) {
        let t = ts.iter().find(|t| t.t == s).expect("type not compiled");
        let x = hexv(&a[3]);
        let out = (t.f)(func, x);
        (out, trig_verdict(s, func, x, out))
    } else {
        let p = ps.iter().find(|p| p.s == s && p.d == d).expect("pair not compiled");
        match f {
            "pow" => {
                let (x, y) = (hexv(&a[3]), hexv(&a[4]));
                let out = (p.pow.unwrap())(x, y);
                (out, pow_verdict(s, d, x, y, out))
            }
            "powi" => {
                let (x, n): (u128, i32) = (hexv(&a[3]), a[4].parse().unwrap());
                let powi = p.powi.unwrap();
                let out = powi(x, n);
                (out, powi_verdict(s, d, x, n, out, &|x, m| powi(x, m)))
            }
            _ => {
                let func = F1.iter().position(|x| *x == f).unwrap();
                let x = hexv(&a[3]);
                let out = (p.f1)(func, x).unwrap();
                (
                    out,
                    match func {
                        0 => sqrt_verdict(s, d, x, out),
                        1 => log_verdict(s, d, x, out, false),
                        2 => log_verdict(s, d, x, out, true),
                        _ => exp_verdict(s, d, x, out),
                    },
                )
            }
        }
    };
    let ticks = last_ticks();
    println!("observed: {} after {} loop iterations (bound 4 x {} + 64 = {})", out, ticks, d.w, tick_bound(d));
    let mut bad = out == TOut::Panic || out == TOut::Cut;
    match v {
        Verdict::Fine { ratio } => println!("accuracy: error / allowed error = {:.4}", ratio),
        Verdict::Unjudged => println!("accuracy: (nothing specified for this outcome)"),
        Verdict::MustErr(why) => {
            println!("expected: Err ({})", why);
            bad |= out != TOut::Err;
        }
        Verdict::Bad { diff, expected, note, ratio } => {
            println!("expected: {} [{}] {} (error / allowed = {:.4})", expected, diff, note, ratio);
            bad = true;
        }
    }
    if f != "powi" && ticks > tick_bound(d) {
        println!("iterations exceed the bound");
        bad = true;
    }
    if bad {
        println!("DIFFERS");
        1
    } else {
        println!("AGREES");
        0
    }
}

pub fn main(engine: &'static str, ps: Vec<Pair>, ts: Vec<Trig>, thin_sets: bool) {
    let _ = ENGINE.set((engine, ps, ts, thin_sets));
    vcore::par::install_hook();
    start_watchdog();
    let args = Args::from_env();
    match args.cmd() {
        "run" => cmd_run(&args),
        "replay" => std::process::exit(cmd_replay(&args.v[1..])),
        "selftest" => {
            hp::selftest();
            crate::oracle::selftest();
        }
        "dump" => {
            // dump S D FUNC --tier T
            let s = Layout::parse(&args.v[1]).unwrap();
            let d = Layout::parse(&args.v[2]).unwrap();
            let tier = Tier::parse(&args.get("tier").unwrap_or("quick".into()));
            DUMP.with(|c| c.set(true));
            let fi = FUNCS.iter().position(|f| *f == args.v[3]).unwrap();
            if fi >= 6 {
                let ts = trigs();
                let t = ts.iter().find(|t| t.t == s).unwrap();
                explore_trig(t, fi - 6, Prop::C11, tier);
            } else {
                let ps = pairs();
                let p = ps.iter().find(|p| p.s == s && p.d == d).unwrap();
                explore_pair(p, fi, Prop::C11, tier, None);
            }
        }
        _ => {
            eprintln!("usage: trans run --prop C12..C17|C11 --tier T --out FILE | replay FUNC S D A [B|N] | selftest");
            std::process::exit(2);
        }
    }
}
