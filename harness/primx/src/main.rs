//! `primx`: the 416 layouts not compiled into `prim` (thorough tier).
#![allow(unused_imports, dead_code)]
#[macro_use]
#[path = "../../prim/src/ops.rs"]
mod ops;
#[path = "../../prim/src/driver.rs"]
mod driver;
pub const NAME: &str = "primx";
#[macro_export]
macro_rules! layout_groups { ($m:ident) => { vcore::for_each_group_x!($m); }; }
#[macro_export]
macro_rules! layout_group_names { ($m:ident) => { vcore::with_group_names_x!($m); }; }
#[macro_export]
macro_rules! probe_layout_groups { ($m:ident) => {  }; }
#[macro_export]
macro_rules! probe_layout_group_names { ($m:ident) => {  $m!{}  }; }
fn main() {
    driver::main();
}
