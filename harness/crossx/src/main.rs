#![allow(unused_imports, dead_code)]
#[path = "../../cross/src/driver.rs"]
mod driver;
mod pairs;
fn main() {
    driver::main(pairs::table(), "crossx");
}
