//! Driver `cross`: conversions and comparisons between two fixed-point layouts, through the
//! public API (`to_num` / `from_num` and their checked/saturating/wrapping/overflowing forms,
//! `From`, `LossyFrom`, `== != < <= > >= partial_cmp`). Serves C03, C04 and the C11 corpus.
use std::cmp::Ordering;
use std::collections::BTreeMap;
use std::hash::Hasher;
use substrate_fixed::traits::LossyFrom;
use vcore::alpha::{self, Tier};
use vcore::out::diff_class;
use vcore::par::{run_jobs, subject};
use vcore::report::{Args, Report, Tally, Violation};
use vcore::{Lay, Layout, Out};

pub struct Pair {
    pub s: Layout,
    pub d: Layout,
    pub f: fn(usize, u128, u128) -> Out,
}

pub const NOIMPL: u64 = 0xffff;

/// compile-time detection of `From` / `LossyFrom` between two concrete types: the inherent
/// associated function wins over the blanket trait method exactly when its bounds hold
pub struct Probe<S, D>(core::marker::PhantomData<(S, D)>);
pub trait NoFrom {
    fn from_(_a: u128) -> Out {
        Out::C(NOIMPL)
    }
}
impl<S, D> NoFrom for Probe<S, D> {}
impl<S: Lay, D: Lay + From<S>> Probe<S, D> {
    pub fn from_(a: u128) -> Out {
        Out::V(D::from(S::from_raw(a)).raw())
    }
}
pub trait NoLossy {
    fn lossy_(_a: u128) -> Out {
        Out::C(NOIMPL)
    }
}
impl<S, D> NoLossy for Probe<S, D> {}
impl<S: Lay, D: Lay + LossyFrom<S>> Probe<S, D> {
    pub fn lossy_(a: u128) -> Out {
        Out::V(D::lossy_from(S::from_raw(a)).raw())
    }
}

pub fn ordcode(o: Option<Ordering>) -> u64 {
    match o {
        None => 0,
        Some(Ordering::Less) => 1,
        Some(Ordering::Equal) => 2,
        Some(Ordering::Greater) => 3,
    }
}
/// the seven observations packed: == != < <= > >= (bits 0..5), partial_cmp (bits 6..7)
pub fn cmp_code_expected(o: Option<Ordering>) -> u64 {
    match o {
        None => 0b10,
        Some(o) => {
            (o == Ordering::Equal) as u64
                | ((o != Ordering::Equal) as u64) << 1
                | ((o == Ordering::Less) as u64) << 2
                | ((o != Ordering::Greater) as u64) << 3
                | ((o == Ordering::Greater) as u64) << 4
                | ((o != Ordering::Less) as u64) << 5
                | ordcode(Some(o)) << 6
        }
    }
}
#[macro_export]
macro_rules! cmp_code {
    ($x:expr, $y:expr) => {{
        let (x, y) = ($x, $y);
        (x == y) as u64 | ((x != y) as u64) << 1 | ((x < y) as u64) << 2 | ((x <= y) as u64) << 3 | ((x > y) as u64) << 4 | ((x >= y) as u64) << 5 | $crate::driver::ordcode(x.partial_cmp(&y)) << 6
    }};
}
pub fn cmp_code_names(diff: u64) -> String {
    ["==", "!=", "<", "<=", ">", ">=", "partial_cmp", "partial_cmp"].iter().enumerate().filter(|(i, _)| diff >> i & 1 == 1).map(|(_, n)| *n).collect::<std::collections::BTreeSet<_>>().into_iter().collect::<Vec<_>>().join(",")
}

pub const OPS: [&str; 13] = [
    "to_num", "checked_to_num", "saturating_to_num", "wrapping_to_num", "overflowing_to_num", "from_num", "checked_from_num", "saturating_from_num", "wrapping_from_num", "overflowing_from_num", "From", "LossyFrom", "cmp",
];
pub const OP_CMP: usize = 12;

#[macro_export]
macro_rules! pair {
    ($S:ty, $D:ty) => {
        $crate::driver::Pair {
            s: <$S as vcore::Lay>::LAYOUT,
            d: <$D as vcore::Lay>::LAYOUT,
            f: |op, a, b| {
                use vcore::{Lay, Out};
                #[allow(unused_imports)]
                use $crate::driver::{NoFrom, NoLossy, Probe};
                let x = <$S as Lay>::from_raw(a);
                match op {
                    0 => Out::V(x.to_num::<$D>().raw()),
                    1 => Out::O(x.checked_to_num::<$D>().map(|y| y.raw())),
                    2 => Out::V(x.saturating_to_num::<$D>().raw()),
                    3 => Out::V(x.wrapping_to_num::<$D>().raw()),
                    4 => {
                        let (y, o) = x.overflowing_to_num::<$D>();
                        Out::P(y.raw(), o)
                    }
                    5 => Out::V(<$D>::from_num(x).raw()),
                    6 => Out::O(<$D>::checked_from_num(x).map(|y| y.raw())),
                    7 => Out::V(<$D>::saturating_from_num(x).raw()),
                    8 => Out::V(<$D>::wrapping_from_num(x).raw()),
                    9 => {
                        let (y, o) = <$D>::overflowing_from_num(x);
                        Out::P(y.raw(), o)
                    }
                    10 => <Probe<$S, $D>>::from_(a),
                    11 => <Probe<$S, $D>>::lossy_(a),
                    _ => {
                        let y = <$D as Lay>::from_raw(b);
                        Out::C($crate::cmp_code!(x, y))
                    }
                }
            },
        }
    };
}

#[derive(Clone, Copy, PartialEq, Eq)]
enum Prop {
    C03,
    C04,
    C11,
}

fn src_values(l: Layout, tier: Tier) -> Vec<u128> {
    match l.w {
        8 => alpha::all_values(8),
        16 => alpha::all_values(16),
        _ => {
            let mut v = alpha::boundary(l, tier);
            let seen: std::collections::HashSet<u128> = v.iter().cloned().collect();
            for x in alpha::float_runs(l, Tier::Quick) {
                if !seen.contains(&x) {
                    v.push(x);
                }
            }
            v
        }
    }
}
/// conversion sources for one (source, destination) pair: the source's own domain followed by source values *related
/// to the destination*: the destination's extremes, the first value beyond them, 0 and +-1 ulp of the destination,
/// expressed in source units, each with its source neighbours -- the overflow boundary of the pair, which sits at
/// raw bit position (destination integer bits - 1 + source fractional bits), rarely a boundary value of the source
fn conv_sources(s: Layout, d: Layout, tier: Tier) -> Vec<u128> {
    let mut v = src_values(s, tier);
    if s.w <= 16 {
        return v; // all values already
    }
    let mut seen: std::collections::HashSet<u128> = v.iter().cloned().collect();
    let one = vcore::Z::from_u128(1);
    let dz = |raw: u128| d.z(raw);
    let targets = [dz(d.max_raw()), dz(d.max_raw()).add(one), dz(d.min_raw()), dz(d.min_raw()).sub(one), vcore::Z::ZERO, one, one.neg(), dz(d.max_raw()).shr_floor(1), dz(d.max_raw()).add(one).shl(1)];
    for t in targets {
        // t in destination units = t * 2^(fs - fd) source units (floor when the source is coarser)
        let base = if s.frac >= d.frac { t.shl(s.frac - d.frac) } else { t.shr_floor(d.frac - s.frac) };
        for off in [-2i128, -1, 0, 1, 2] {
            let z = base.add(vcore::Z::from_i128(off));
            if s.fits(&z) {
                let raw = s.wrap(&z);
                if seen.insert(raw) {
                    v.push(raw);
                }
            }
        }
    }
    v
}
fn cmp_values(l: Layout, tier: Tier) -> Vec<u128> {
    match l.w {
        8 => alpha::all_values(8),
        _ => alpha::boundary(l, tier),
    }
}

/// comparison operand pairs: the product of the two alphabets, followed by *related* pairs the product cannot
/// contain: every value of one side with the other side's representation of (the floor of) the same number and its
/// two neighbours -- the pairs that are equal or one unit apart across the two layouts, for irregular mid-range
/// patterns as well
fn cmp_pairs(s: Layout, d: Layout, tier: Tier) -> Vec<(u128, u128)> {
    let av = cmp_values(s, tier);
    let bv = cmp_values(d, tier);
    let mut v: Vec<(u128, u128)> = av.iter().flat_map(|&a| bv.iter().map(move |&b| (a, b))).collect();
    if s.w > 8 || d.w > 8 {
        let one = vcore::Z::from_u128(1);
        for &a in &av {
            let (r, _) = exact_conv(s, d, a);
            for z in [r.sub(one), r, r.add(one)] {
                if d.fits(&z) {
                    v.push((a, d.wrap(&z)));
                }
            }
        }
        for &b in &bv {
            let (r, _) = exact_conv(d, s, b);
            for z in [r.sub(one), r, r.add(one)] {
                if s.fits(&z) {
                    v.push((s.wrap(&z), b));
                }
            }
        }
    }
    v
}

/// exact conversion result in destination raw units and whether it is exact
fn exact_conv(s: Layout, d: Layout, a: u128) -> (vcore::Z, bool) {
    let za = s.z(a);
    if d.frac >= s.frac {
        (za.shl(d.frac - s.frac), true)
    } else {
        let r = za.shr_floor(s.frac - d.frac);
        (r, r.shl(s.frac - d.frac) == za)
    }
}

/// expected outcome of a conversion op; None = unspecified
fn expect_conv(s: Layout, d: Layout, op: usize, a: u128, got: &Out) -> Option<Out> {
    let (r, exact) = exact_conv(s, d, a);
    let fits = d.fits(&r);
    match op % 5 + if op >= 10 { 100 } else { 0 } {
        0 => {
            if fits {
                Some(Out::V(d.wrap(&r)))
            } else {
                None
            }
        }
        1 => Some(Out::O(if fits { Some(d.wrap(&r)) } else { None })),
        2 => Some(Out::V(d.sat(&r))),
        3 => Some(Out::V(d.wrap(&r))),
        4 => Some(Out::P(d.wrap(&r), !fits)),
        100 => {
            // From: judged only where the impl exists; then it must be value preserving
            if *got == Out::C(NOIMPL) {
                None
            } else if fits && exact {
                Some(Out::V(d.wrap(&r)))
            } else {
                // an infallible conversion exists for a value it cannot preserve
                Some(Out::E(1))
            }
        }
        _ => {
            // LossyFrom: only fractional bits may be lost
            if *got == Out::C(NOIMPL) {
                None
            } else if fits {
                Some(Out::V(d.wrap(&r)))
            } else {
                Some(Out::E(2))
            }
        }
    }
}

fn exact_cmp(s: Layout, d: Layout, a: u128, b: u128) -> Ordering {
    s.z(a).shl(d.frac).cmp(&d.z(b).shl(s.frac))
}

fn case(p: &Pair, op: usize, a: u128, b: u128) -> String {
    if op == OP_CMP {
        format!("cross {} {} cmp {:#x} {:#x}", p.s.name(), p.d.name(), a, b)
    } else {
        format!("cross {} {} {} {:#x}", p.s.name(), p.d.name(), OPS[op], a)
    }
}

struct JobOut {
    rep: Report,
    dig: Vec<u64>,
    returned: Vec<(String, Out)>,
}

fn run_pair(p: &Pair, prop: Prop, tier: Tier) -> JobOut {
    let mut rep = Report::new("cross", "", tier.name());
    let mut tally = Tally::new(OPS.len());
    let mut dig: Vec<std::collections::hash_map::DefaultHasher> = (0..OPS.len()).map(|_| Default::default()).collect();
    let mut returned = vec![];
    let (s, d) = (p.s, p.d);
    let key = |op: usize| format!("{}->{} {}", s.family(), d.family(), OPS[op]);
    if prop != Prop::C03 {
        for &a in &conv_sources(s, d, tier) {
            rep.states += 1;
            if a != 0 {
                rep.nontrivial_states += 1;
            }
            for op in 0..OP_CMP {
                let pre = if op < 10 { expect_conv(s, d, op, a, &Out::Panic) } else { Some(Out::Panic) };
                if pre.is_none() && prop != Prop::C11 {
                    continue;
                }
                let got = subject(|| (p.f)(op, a, 0)).unwrap_or(Out::Panic);
                rep.transitions += 1;
                tally.counts[op][got.class()] += 1;
                let exp = if op < 10 { pre } else { expect_conv(s, d, op, a, &got) };
                if prop == Prop::C11 {
                    if exp.is_none() && op < 10 {
                        if vcore::CHECKED_PROFILE && got != Out::Panic {
                            returned.push((case(p, op, a, 0), got));
                        }
                    } else {
                        use std::hash::Hasher;
                        dig[op].write_u128(a);
                        got.feed(&mut dig[op]);
                    }
                    continue;
                }
                let Some(exp) = exp else { continue };
                rep.judged += 1;
                tally.judged[op] += 1;
                if got != exp {
                    let (r, exact) = exact_conv(s, d, a);
                    rep.violation(Violation {
                        key: key(op),
                        diff: match exp {
                            Out::E(1) => "From-not-value-preserving".into(),
                            Out::E(2) => "LossyFrom-loses-integer-bits".into(),
                            _ => diff_class(&got, &exp).into(),
                        },
                        case: case(p, op, a, 0),
                        observed: got.to_string(),
                        expected: match exp {
                            Out::E(1) => "no infallible From for a source value the destination cannot hold exactly".into(),
                            Out::E(2) => "no LossyFrom for a source value outside the destination range".into(),
                            _ => exp.to_string(),
                        },
                        note: format!("exact={} exact_conversion={}", r, exact),
                        kf: None,
                    });
                }
            }
        }
    }
    if prop != Prop::C04 {
        for (a, b) in cmp_pairs(s, d, tier) {
            {
                rep.states += 1;
                if a != 0 || b != 0 {
                    rep.nontrivial_states += 1;
                }
                let got = subject(|| (p.f)(OP_CMP, a, b)).unwrap_or(Out::Panic);
                rep.transitions += 1;
                let o = exact_cmp(s, d, a, b);
                // count by expected ordering so that the evidence shows all three were reached
                tally.counts[OP_CMP][match o {
                    Ordering::Less => 3,
                    Ordering::Equal => 7,
                    Ordering::Greater => 4,
                }] += 1;
                if prop == Prop::C11 {
                    dig[OP_CMP].write_u128(a);
                    dig[OP_CMP].write_u128(b);
                    got.feed(&mut dig[OP_CMP]);
                    continue;
                }
                let exp = Out::C(cmp_code_expected(Some(o)));
                rep.judged += 1;
                tally.judged[OP_CMP] += 1;
                if got != exp {
                    let which = match got {
                        Out::C(g) => cmp_code_names(g ^ cmp_code_expected(Some(o))),
                        _ => "panic".into(),
                    };
                    rep.violation(Violation {
                        key: format!("{}?{} cmp", s.family(), d.family()),
                        diff: format!("wrong[{}]", which),
                        case: case(p, OP_CMP, a, b),
                        observed: got.to_string(),
                        expected: exp.to_string(),
                        note: format!("exact ordering {:?}; code bits: == != < <= > >= then partial_cmp (0 none,1 less,2 equal,3 greater)", o),
                        kf: None,
                    });
                }
            }
        }
    }
    rep.add_tally(&format!("{}->{}", s.family(), d.family()), &OPS, &tally);
    JobOut { rep, dig: dig.into_iter().map(|h| h.finish()).collect(), returned }
}

fn cmd_run(tab: &[Pair], args: &Args, name: &str) {
    let prop = match args.get("prop").expect("--prop").as_str() {
        "C03" => Prop::C03,
        "C04" => Prop::C04,
        "C11" => Prop::C11,
        p => panic!("cross does not serve {}", p),
    };
    let tier = Tier::parse(&args.get("tier").unwrap_or("quick".into()));
    let t0 = std::time::Instant::now();
    let results = run_jobs(tab, |p| run_pair(p, prop, tier));
    let mut rep = Report::new(name, &args.get("prop").unwrap(), tier.name());
    let mut returned = vec![];
    let mut from_impls = 0u64;
    let mut lossy_impls = 0u64;
    for (p, r) in tab.iter().zip(results) {
        if prop == Prop::C11 {
            for (i, d) in r.dig.iter().enumerate() {
                rep.digests.insert(format!("{} {} {}", p.s.name(), p.d.name(), OPS[i]), format!("{:016x}", d));
            }
        }
        if r.rep.blocks.iter().any(|(k, m)| k.ends_with(" From") && m.get("judged").copied().unwrap_or(0) > 0) {
            from_impls += 1;
        }
        if r.rep.blocks.iter().any(|(k, m)| k.ends_with(" LossyFrom") && m.get("judged").copied().unwrap_or(0) > 0) {
            lossy_impls += 1;
        }
        returned.extend(r.returned);
        rep.merge(r.rep);
    }
    rep.layouts = tab.len() as u64;
    rep.extra.insert("layout_pairs".into(), tab.len() as u64);
    if prop == Prop::C04 {
        rep.extra.insert("pairs_with_From_impl".into(), from_impls);
        rep.extra.insert("pairs_with_LossyFrom_impl".into(), lossy_impls);
        rep.guard("pairs with an infallible From impl exercised", from_impls);
        rep.guard("pairs with a LossyFrom impl exercised", lossy_impls);
    }
    // samples: first, middle, last pair
    for i in [0, tab.len() / 2, tab.len() - 1] {
        let p = &tab[i];
        let a = *src_values(p.s, tier).last().unwrap();
        let b = *cmp_values(p.d, tier).get(1).unwrap();
        if prop != Prop::C03 {
            let got = subject(|| (p.f)(4, a, 0)).unwrap_or(Out::Panic);
            rep.samples.push(format!("{} -> {} (exact {})", case(p, 4, a, 0), got, exact_conv(p.s, p.d, a).0));
        }
        if prop != Prop::C04 {
            let got = subject(|| (p.f)(OP_CMP, a, b)).unwrap_or(Out::Panic);
            rep.samples.push(format!("{} -> {} (exact {:?})", case(p, OP_CMP, a, b), got, exact_cmp(p.s, p.d, a, b)));
        }
    }
    if prop == Prop::C11 {
        if let Some(path) = args.get("returned-out") {
            let mut s = String::new();
            for (c, o) in &returned {
                s.push_str(&format!("{}\t{}\n", c, o));
            }
            std::fs::write(path, s).unwrap();
        }
        rep.extra.insert("permitted_cases_returned_in_this_build".into(), returned.len() as u64);
    }
    rep.complete_subspaces = vec![
        "all 256 source values (conversions) and all 65536 value pairs (comparisons) of every compiled pair of 8-bit layouts".into(),
        "all 65536 source values of every compiled pair with a 16-bit source (conversions)".into(),
    ];
    rep.notes.push(format!("{} ordered (source, destination) layout pairs compiled into this engine", tab.len()));
    rep.wall_s = t0.elapsed().as_secs_f64();
    rep.write(&args.get("out").expect("--out"));
    println!(
        "{} prop={} tier={} profile={} pairs={} states={} transitions={} judged={} mismatches={} wall={:.1}s",
        name,
        rep.prop,
        rep.tier,
        vcore::profile_name(),
        tab.len(),
        rep.states,
        rep.transitions,
        rep.judged,
        rep.violation_counts.values().sum::<u64>(),
        rep.wall_s
    );
}

fn parse_hex(s: &str) -> u128 {
    u128::from_str_radix(s.trim_start_matches("0x"), 16).expect("hex operand")
}

fn exec_case(tab: &[Pair], p: &[&str]) -> Option<(usize, Out, Option<Out>, String)> {
    let s = Layout::parse(p[0])?;
    let d = Layout::parse(p[1])?;
    let pair = tab.iter().find(|x| x.s == s && x.d == d)?;
    let op = OPS.iter().position(|o| *o == p[2])?;
    let a = parse_hex(p[3]);
    if op == OP_CMP {
        let b = parse_hex(p[4]);
        let got = subject(|| (pair.f)(op, a, b)).unwrap_or(Out::Panic);
        let o = exact_cmp(s, d, a, b);
        Some((op, got, Some(Out::C(cmp_code_expected(Some(o)))), format!("{:?}", o)))
    } else {
        let got = subject(|| (pair.f)(op, a, 0)).unwrap_or(Out::Panic);
        let exp = expect_conv(s, d, op, a, &got);
        Some((op, got, exp, format!("{}", exact_conv(s, d, a).0)))
    }
}

fn cmd_replay(tab: &[Pair], a: &[String]) -> i32 {
    let p: Vec<&str> = a.iter().map(|s| s.as_str()).collect();
    match exec_case(tab, &p) {
        None => {
            println!("this layout pair / operation is not compiled into this engine");
            2
        }
        Some((_, got, exp, exact)) => {
            println!("profile:  {}", vcore::profile_name());
            println!("call:     {}", a.join(" "));
            println!("exact:    {}", exact);
            println!("observed: {}", got);
            match exp {
                Some(e) => {
                    println!("expected: {}", e);
                    if e == got {
                        println!("AGREES");
                        0
                    } else {
                        println!("DIFFERS");
                        1
                    }
                }
                None => {
                    println!("expected: (unspecified)");
                    0
                }
            }
        }
    }
}

fn cmd_recheck(tab: &[Pair], path: &str, out: &str, name: &str) {
    let text = std::fs::read_to_string(path).expect("recheck file");
    let mut rep = Report::new(name, "C11", "recheck");
    for line in text.lines() {
        let (case, other) = line.split_once('\t').expect("bad recheck line");
        let p: Vec<&str> = case.split_whitespace().collect();
        let Some((op, got, _, _)) = exec_case(tab, &p[1..]) else { continue };
        rep.transitions += 1;
        rep.judged += 1;
        if got.to_string() != other {
            rep.violation(Violation {
                key: format!("{} {}", p[1], OPS[op]),
                diff: "profile-dependent".into(),
                case: case.to_string(),
                observed: format!("{}: {}", vcore::profile_name(), got),
                expected: format!("other profile: {}", other),
                note: "both builds returned normally with different values, or this build panicked where the checking build returned".into(),
                kf: None,
            });
        }
    }
    rep.write(out);
    println!("{} recheck: {} cases, {} mismatches", name, rep.transitions, rep.violation_counts.values().sum::<u64>());
}

fn cmd_dump(tab: &[Pair], args: &Args) {
    let s = Layout::parse(&args.v[1]).unwrap();
    let d = Layout::parse(&args.v[2]).unwrap();
    let op = OPS.iter().position(|o| *o == args.v[3]).unwrap();
    let tier = Tier::parse(&args.get("tier").unwrap_or("quick".into()));
    let p = tab.iter().find(|x| x.s == s && x.d == d).unwrap();
    use std::io::Write;
    let mut o = std::io::BufWriter::new(std::io::stdout().lock());
    if op == OP_CMP {
        for (a, b) in cmp_pairs(s, d, tier) {
            let got = subject(|| (p.f)(op, a, b)).unwrap_or(Out::Panic);
            writeln!(o, "{}\t{}", case(p, op, a, b), got).unwrap();
        }
    } else {
        for &a in &conv_sources(s, d, tier) {
            if op < 10 && expect_conv(s, d, op, a, &Out::Panic).is_none() {
                continue;
            }
            let got = subject(|| (p.f)(op, a, 0)).unwrap_or(Out::Panic);
            writeln!(o, "{}\t{}", case(p, op, a, 0), got).unwrap();
        }
    }
}

pub fn main(tab: Vec<Pair>, name: &str) {
    vcore::par::install_hook();
    let args = Args::from_env();
    let _ = BTreeMap::<u8, u8>::new();
    match args.cmd() {
        "run" => cmd_run(&tab, &args, name),
        "replay" => std::process::exit(cmd_replay(&tab, &args.v[1..])),
        "recheck" => cmd_recheck(&tab, &args.v[1], &args.get("out").expect("--out"), name),
        "dump" => cmd_dump(&tab, &args),
        _ => {
            eprintln!("usage: {} run --prop C03|C04|C11 --tier T --out FILE | replay S D OP A [B] | recheck FILE --out FILE | dump S D OP --tier T", name);
            std::process::exit(2);
        }
    }
}
