#![allow(unused_imports, dead_code)]
mod driver;
mod pairs;
fn main() {
    driver::main(pairs::table(), "cross");
}
