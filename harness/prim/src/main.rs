//! `prim`: the quick subset of layouts (all 8-bit layouts, boundary fractional-bit counts of
//! the wider families: 90 layouts). `primx` compiles the other 416.
#![allow(unused_imports, dead_code)]
#[macro_use]
mod ops;
mod driver;
pub const NAME: &str = "prim";
#[macro_export]
macro_rules! layout_groups { ($m:ident) => { vcore::for_each_group_q!($m); }; }
#[macro_export]
macro_rules! layout_group_names { ($m:ident) => { vcore::with_group_names_q!($m); }; }
#[macro_export]
macro_rules! probe_layout_groups { ($m:ident) => { vcore::for_each_group_x!($m); }; }
#[macro_export]
macro_rules! probe_layout_group_names { ($m:ident) => { vcore::with_group_names_x!($m); }; }
fn main() {
    driver::main();
}
