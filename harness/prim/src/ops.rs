//! Thin per-layout dispatch for conversions/comparisons between a fixed-point layout and the
//! primitive types. op = kind * 16 + prim index.
//! prim index: 0..11 = i8 i16 i32 i64 i128 isize u8 u16 u32 u64 u128 usize, 12 = bool, 13 = f32, 14 = f64
//! kind: 0..4 from_num plain/checked/saturating/wrapping/overflowing (prim -> fixed)
//!       5..9 to_num   plain/checked/saturating/wrapping/overflowing (fixed -> prim)
//!       10 cmp (fixed ? prim)   11 cmp (prim ? fixed)
//!       12 From<prim> for fixed  13 LossyFrom<prim> for fixed  14 From<fixed> for prim  15 LossyFrom<fixed> for prim
//!       16 same-type: a.cmp(&b) code | hash equality | eq   (prim index ignored)

pub const PRIMS: [&str; 15] = ["i8", "i16", "i32", "i64", "i128", "isize", "u8", "u16", "u32", "u64", "u128", "usize", "bool", "f32", "f64"];
pub const KINDS: [&str; 17] = [
    "from_num", "checked_from_num", "saturating_from_num", "wrapping_from_num", "overflowing_from_num", "to_num", "checked_to_num", "saturating_to_num", "wrapping_to_num", "overflowing_to_num", "cmp", "cmp_rev", "From_prim",
    "LossyFrom_prim", "From_fixed", "LossyFrom_fixed", "same_type_ord_hash",
];
pub const NOIMPL: u64 = 0xffff;

pub fn ordcode(o: Option<core::cmp::Ordering>) -> u64 {
    use core::cmp::Ordering::*;
    match o {
        None => 0,
        Some(Less) => 1,
        Some(Equal) => 2,
        Some(Greater) => 3,
    }
}

#[macro_export]
macro_rules! cmp_code {
    ($x:expr, $y:expr) => {{
        let (x, y) = ($x, $y);
        (x == y) as u64 | ((x != y) as u64) << 1 | ((x < y) as u64) << 2 | ((x <= y) as u64) << 3 | ((x > y) as u64) << 4 | ((x >= y) as u64) << 5 | $crate::ops::ordcode(x.partial_cmp(&y)) << 6
    }};
}

pub struct Probe<S, D>(core::marker::PhantomData<(S, D)>);
pub trait NoFrom {
    fn from_(_a: u128) -> vcore::Out {
        vcore::Out::C(NOIMPL)
    }
}
impl<S, D> NoFrom for Probe<S, D> {}
pub trait NoLossy {
    fn lossy_(_a: u128) -> vcore::Out {
        vcore::Out::C(NOIMPL)
    }
}
impl<S, D> NoLossy for Probe<S, D> {}

/// conversion of a raw u128 to/from a primitive
pub trait PrimVal: Copy {
    fn from_raw(raw: u128) -> Self;
    fn to_out(self) -> vcore::Out;
}
macro_rules! prim_int {
    ($($T:ident: $w:expr),*) => { $(
        impl PrimVal for $T {
            #[inline] fn from_raw(raw: u128) -> Self { raw as $T }
            #[inline] fn to_out(self) -> vcore::Out { vcore::Out::V((self as u128) & vcore::mask($w)) }
        }
    )* };
}
prim_int! { i8: 8, i16: 16, i32: 32, i64: 64, i128: 128, isize: 64, u8: 8, u16: 16, u32: 32, u64: 64, u128: 128, usize: 64 }
impl PrimVal for bool {
    fn from_raw(raw: u128) -> Self {
        raw & 1 == 1
    }
    fn to_out(self) -> vcore::Out {
        vcore::Out::V(self as u128)
    }
}
impl PrimVal for f32 {
    fn from_raw(raw: u128) -> Self {
        f32::from_bits(raw as u32)
    }
    fn to_out(self) -> vcore::Out {
        vcore::Out::F32(self.to_bits())
    }
}
impl PrimVal for f64 {
    fn from_raw(raw: u128) -> Self {
        f64::from_bits(raw as u64)
    }
    fn to_out(self) -> vcore::Out {
        vcore::Out::F64(self.to_bits())
    }
}
impl<S: PrimVal, D: vcore::Lay + From<S>> Probe<S, D> {
    pub fn from_(a: u128) -> vcore::Out {
        vcore::Out::V(D::from(S::from_raw(a)).raw())
    }
}
impl<S: PrimVal, D: vcore::Lay + substrate_fixed::traits::LossyFrom<S>> Probe<S, D> {
    pub fn lossy_(a: u128) -> vcore::Out {
        vcore::Out::V(D::lossy_from(S::from_raw(a)).raw())
    }
}
/// fixed -> prim direction
pub struct ProbeR<S, D>(core::marker::PhantomData<(S, D)>);
impl<S, D> NoFrom for ProbeR<S, D> {}
impl<S, D> NoLossy for ProbeR<S, D> {}
impl<S: vcore::Lay, D: PrimVal + From<S>> ProbeR<S, D> {
    pub fn from_(a: u128) -> vcore::Out {
        D::from(S::from_raw(a)).to_out()
    }
}
impl<S: vcore::Lay, D: PrimVal + substrate_fixed::traits::LossyFrom<S>> ProbeR<S, D> {
    pub fn lossy_(a: u128) -> vcore::Out {
        D::lossy_from(S::from_raw(a)).to_out()
    }
}

/// generic part: conversions and comparisons (no impl detection)
#[macro_export]
macro_rules! define_ops {
    () => {
        use vcore::{Lay, Out};
        use $crate::ops::PrimVal;
        #[inline(always)]
        fn conv<F: Lay, P: PrimVal + substrate_fixed::traits::ToFixed + substrate_fixed::traits::FromFixed>(kind: usize, a: u128, b: u128) -> Out
        where
            F: PartialOrd<P>,
        {
            match kind {
                0 => Out::V(F::from_num(P::from_raw(b)).raw()),
                1 => Out::O(F::checked_from_num(P::from_raw(b)).map(|y| y.raw())),
                2 => Out::V(F::saturating_from_num(P::from_raw(b)).raw()),
                3 => Out::V(F::wrapping_from_num(P::from_raw(b)).raw()),
                4 => {
                    let (y, o) = F::overflowing_from_num(P::from_raw(b));
                    Out::P(y.raw(), o)
                }
                5 => F::from_raw(a).to_num::<P>().to_out(),
                6 => match F::from_raw(a).checked_to_num::<P>() {
                    Some(y) => match y.to_out() {
                        Out::V(v) => Out::O(Some(v)),
                        o => o,
                    },
                    None => Out::O(None),
                },
                7 => F::from_raw(a).saturating_to_num::<P>().to_out(),
                8 => F::from_raw(a).wrapping_to_num::<P>().to_out(),
                9 => {
                    let (y, o) = F::from_raw(a).overflowing_to_num::<P>();
                    match y.to_out() {
                        Out::V(v) => Out::P(v, o),
                        // floats: the flag is always false; fold it into a code if it is not
                        other => {
                            if o {
                                Out::C(0xf1a6)
                            } else {
                                other
                            }
                        }
                    }
                }
                _ => Out::C($crate::cmp_code!(F::from_raw(a), P::from_raw(b))),
            }
        }
        pub fn gen<F: Lay>(kind: usize, prim: usize, a: u128, b: u128) -> Out {
            if kind == 16 {
                use std::hash::{Hash, Hasher};
                let (x, y) = (F::from_raw(a), F::from_raw(b));
                let hx = { let mut h = std::collections::hash_map::DefaultHasher::new(); x.hash(&mut h); h.finish() };
                let hy = { let mut h = std::collections::hash_map::DefaultHasher::new(); y.hash(&mut h); h.finish() };
                return Out::C($crate::ops::ordcode(Some(x.cmp(&y))) | ((hx == hy) as u64) << 2 | ((x == y) as u64) << 3 | $crate::ops::ordcode(x.partial_cmp(&y)) << 4
                    | ((x.max(y).raw() == if x.cmp(&y) == core::cmp::Ordering::Greater { a } else { b }) as u64) << 6);
            }
            match prim {
                0 => conv::<F, i8>(kind, a, b),
                1 => conv::<F, i16>(kind, a, b),
                2 => conv::<F, i32>(kind, a, b),
                3 => conv::<F, i64>(kind, a, b),
                4 => conv::<F, i128>(kind, a, b),
                5 => conv::<F, isize>(kind, a, b),
                6 => conv::<F, u8>(kind, a, b),
                7 => conv::<F, u16>(kind, a, b),
                8 => conv::<F, u32>(kind, a, b),
                9 => conv::<F, u64>(kind, a, b),
                10 => conv::<F, u128>(kind, a, b),
                11 => conv::<F, usize>(kind, a, b),
                12 => match kind {
                    0 => Out::V(F::from_num(bool::from_raw(b)).raw()),
                    1 => Out::O(F::checked_from_num(bool::from_raw(b)).map(|y| y.raw())),
                    2 => Out::V(F::saturating_from_num(bool::from_raw(b)).raw()),
                    3 => Out::V(F::wrapping_from_num(bool::from_raw(b)).raw()),
                    4 => {
                        let (y, o) = F::overflowing_from_num(bool::from_raw(b));
                        Out::P(y.raw(), o)
                    }
                    _ => Out::C($crate::ops::NOIMPL),
                },
                13 => conv::<F, f32>(kind, a, b),
                _ => conv::<F, f64>(kind, a, b),
            }
        }
    };
}

/// concrete part: impl detection for one type
#[macro_export]
macro_rules! probes {
    ($T:ty) => {
        |kind: usize, prim: usize, a: u128, b: u128| -> vcore::Out {
            #[allow(unused_imports)]
            use $crate::ops::{NoFrom, NoLossy, Probe, ProbeR};
            macro_rules! one {
                ($P:ty) => {
                    match kind {
                        11 => vcore::Out::C($crate::cmp_code!(<$P as $crate::ops::PrimVal>::from_raw(b), <$T as vcore::Lay>::from_raw(a))),
                        12 => <Probe<$P, $T>>::from_(b),
                        13 => <Probe<$P, $T>>::lossy_(b),
                        14 => <ProbeR<$T, $P>>::from_(a),
                        _ => <ProbeR<$T, $P>>::lossy_(a),
                    }
                };
            }
            match prim {
                0 => one!(i8),
                1 => one!(i16),
                2 => one!(i32),
                3 => one!(i64),
                4 => one!(i128),
                5 => one!(isize),
                6 => one!(u8),
                7 => one!(u16),
                8 => one!(u32),
                9 => one!(u64),
                10 => one!(u128),
                11 => one!(usize),
                12 => match kind {
                    12 => <Probe<bool, $T>>::from_(b),
                    13 => <Probe<bool, $T>>::lossy_(b),
                    _ => vcore::Out::C($crate::ops::NOIMPL),
                },
                13 => one!(f32),
                _ => one!(f64),
            }
        }
    };
}

/// impl detection only (kinds 12..15), without the comparison operators: cheap enough to compile for every layout
#[macro_export]
macro_rules! probes_only {
    ($T:ty) => {
        |kind: usize, prim: usize, a: u128, b: u128| -> vcore::Out {
            #[allow(unused_imports)]
            use $crate::ops::{NoFrom, NoLossy, Probe, ProbeR};
            macro_rules! one {
                ($P:ty) => {
                    match kind {
                        12 => <Probe<$P, $T>>::from_(b),
                        13 => <Probe<$P, $T>>::lossy_(b),
                        14 => <ProbeR<$T, $P>>::from_(a),
                        15 => <ProbeR<$T, $P>>::lossy_(a),
                        _ => unreachable!("probe-only layout"),
                    }
                };
            }
            macro_rules! onef {
                ($P:ty) => {
                    match kind {
                        11 => vcore::Out::C($crate::cmp_code!(<$P as $crate::ops::PrimVal>::from_raw(b), <$T as vcore::Lay>::from_raw(a))),
                        12 => <Probe<$P, $T>>::from_(b),
                        13 => <Probe<$P, $T>>::lossy_(b),
                        14 => <ProbeR<$T, $P>>::from_(a),
                        15 => <ProbeR<$T, $P>>::lossy_(a),
                        _ => unreachable!("probe-only layout"),
                    }
                };
            }
            match prim {
                0 => one!(i8),
                1 => one!(i16),
                2 => one!(i32),
                3 => one!(i64),
                4 => one!(i128),
                5 => one!(isize),
                6 => one!(u8),
                7 => one!(u16),
                8 => one!(u32),
                9 => one!(u64),
                10 => one!(u128),
                11 => one!(usize),
                12 => match kind {
                    12 => <Probe<bool, $T>>::from_(b),
                    13 => <Probe<bool, $T>>::lossy_(b),
                    _ => vcore::Out::C($crate::ops::NOIMPL),
                },
                13 => onef!(f32),
                _ => onef!(f64),
            }
        }
    };
}

/// `LossyFrom` between two primitives (the crate implements it for the widening integer conversions, bool -> integer,
/// integer -> float); impl detection as for the fixed-point probes
pub struct ProbePP<S, D>(core::marker::PhantomData<(S, D)>);
impl<S, D> NoLossy for ProbePP<S, D> {}
impl<S: PrimVal, D: PrimVal + substrate_fixed::traits::LossyFrom<S>> ProbePP<S, D> {
    pub fn lossy_(a: u128) -> vcore::Out {
        D::lossy_from(S::from_raw(a)).to_out()
    }
}
macro_rules! pp_row {
    ($S:ty, $d:expr, $a:expr) => {
        match $d {
            0 => <ProbePP<$S, i8>>::lossy_($a),
            1 => <ProbePP<$S, i16>>::lossy_($a),
            2 => <ProbePP<$S, i32>>::lossy_($a),
            3 => <ProbePP<$S, i64>>::lossy_($a),
            4 => <ProbePP<$S, i128>>::lossy_($a),
            5 => <ProbePP<$S, isize>>::lossy_($a),
            6 => <ProbePP<$S, u8>>::lossy_($a),
            7 => <ProbePP<$S, u16>>::lossy_($a),
            8 => <ProbePP<$S, u32>>::lossy_($a),
            9 => <ProbePP<$S, u64>>::lossy_($a),
            10 => <ProbePP<$S, u128>>::lossy_($a),
            11 => <ProbePP<$S, usize>>::lossy_($a),
            13 => <ProbePP<$S, f32>>::lossy_($a),
            14 => <ProbePP<$S, f64>>::lossy_($a),
            _ => vcore::Out::C(NOIMPL),
        }
    };
}
/// `D::lossy_from(s)` for primitive indices (as in PRIMS); NOIMPL where the crate has no impl
pub fn prim_lossy(src: usize, dst: usize, a: u128) -> vcore::Out {
    #[allow(unused_imports)]
    use crate::ops::NoLossy;
    match src {
        0 => pp_row!(i8, dst, a),
        1 => pp_row!(i16, dst, a),
        2 => pp_row!(i32, dst, a),
        3 => pp_row!(i64, dst, a),
        4 => pp_row!(i128, dst, a),
        5 => pp_row!(isize, dst, a),
        6 => pp_row!(u8, dst, a),
        7 => pp_row!(u16, dst, a),
        8 => pp_row!(u32, dst, a),
        9 => pp_row!(u64, dst, a),
        10 => pp_row!(u128, dst, a),
        11 => pp_row!(usize, dst, a),
        12 => pp_row!(bool, dst, a),
        _ => vcore::Out::C(NOIMPL),
    }
}
