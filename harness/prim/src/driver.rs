//! Driver `prim`: conversions and comparisons between every fixed-point layout and the
//! primitive types (12 integers, bool, f32, f64), plus same-type Ord/Eq/Hash.
//! Serves C03, C04, C05 and the C11 corpus.
use crate::ops::*;
use crate::{define_ops, probes};
use std::cmp::Ordering;
use std::hash::Hasher;
use substrate_fixed::types::extra;
use substrate_fixed::*;
use vcore::alpha::{self, Tier};
use vcore::ieee::{self, Dec};
use vcore::out::diff_class;
use vcore::par::{run_jobs, subject};
use vcore::report::{Args, Report, Tally, Violation};
use vcore::{mask, Lay, Layout, Out, Z};

pub type OpFn = fn(usize, usize, u128, u128) -> Out;
pub struct Entry {
    l: Layout,
    gen: OpFn,
    probe: OpFn,
    /// entry of the second table: only the From / LossyFrom probes (kinds 12..15) are compiled for this layout
    probe_only: bool,
}
fn no_gen(_: usize, _: usize, _: u128, _: u128) -> Out {
    unreachable!("probe-only layout")
}

macro_rules! group {
    ($g:ident: [ $( ($T:ty, $B:ident, $w:expr, $f:expr, $s:ident) ),* ]) => {
        mod $g {
            use super::*;
            define_ops!();
            pub fn register(v: &mut Vec<Entry>) {
                $( v.push(Entry { l: <$T as Lay>::LAYOUT, gen: gen::<$T>, probe: probes!($T), probe_only: false }); )*
            }
        }
    };
}
crate::layout_groups!(group);
macro_rules! table {
    ($($g:ident)*) => {
        fn table() -> Vec<Entry> {
            let mut v = vec![];
            $( $g::register(&mut v); )*
            v.sort_by_key(|e| (e.l.w, !e.l.signed, e.l.frac));
            v
        }
    };
}
crate::layout_group_names!(table);

/// Second table (`prim` only; empty in `primx`, which compiles those layouts in full): for every layout outside the
/// quick subset, the From / LossyFrom probes against all primitives. The existence of an infallible conversion is
/// decided by type-level bounds per fractional-bit count, so it is probed at every count, also in the quick tier.
mod ponly {
    use super::*;
    macro_rules! pgroup {
        ($g:ident: [ $( ($T:ty, $B:ident, $w:expr, $f:expr, $s:ident) ),* ]) => {
            pub mod $g {
                use super::*;
                define_ops!();
                /// float conversions and comparisons only
                pub fn genf<F: Lay>(kind: usize, prim: usize, a: u128, b: u128) -> Out {
                    match prim {
                        13 => conv::<F, f32>(kind, a, b),
                        14 => conv::<F, f64>(kind, a, b),
                        _ => unreachable!("probe-only layout"),
                    }
                }
                pub fn register(v: &mut Vec<Entry>) {
                    $( v.push(Entry { l: <$T as Lay>::LAYOUT, gen: genf::<$T>, probe: crate::probes_only!($T), probe_only: true }); )*
                }
            }
        };
    }
    crate::probe_layout_groups!(pgroup);
    macro_rules! ptable {
        ($($g:ident)*) => {
            pub fn table() -> Vec<Entry> {
                #[allow(unused_mut)]
                let mut v: Vec<Entry> = vec![];
                $( $g::register(&mut v); )*
                v.sort_by_key(|e| (e.l.w, !e.l.signed, e.l.frac));
                v
            }
        };
    }
    crate::probe_layout_group_names!(ptable);
}

fn call(e: &Entry, kind: usize, prim: usize, a: u128, b: u128) -> Out {
    subject(|| if (11..16).contains(&kind) { (e.probe)(kind, prim, a, b) } else { (e.gen)(kind, prim, a, b) }).unwrap_or(Out::Panic)
}

/// layout of an integer primitive
fn prim_layout(p: usize) -> Option<Layout> {
    Some(match p {
        0 => Layout::new(8, 0, true),
        1 => Layout::new(16, 0, true),
        2 => Layout::new(32, 0, true),
        3 => Layout::new(64, 0, true),
        4 => Layout::new(128, 0, true),
        5 => Layout::new(64, 0, true),
        6 => Layout::new(8, 0, false),
        7 => Layout::new(16, 0, false),
        8 => Layout::new(32, 0, false),
        9 => Layout::new(64, 0, false),
        10 => Layout::new(128, 0, false),
        11 => Layout::new(64, 0, false),
        _ => return None,
    })
}

#[derive(Clone, Copy, PartialEq, Eq, Debug)]
enum Prop {
    C03,
    C04,
    C05,
    C11,
}

fn decode(prim: usize, b: u128) -> Dec {
    if prim == 13 {
        ieee::dec32(b as u32)
    } else {
        ieee::dec64(b as u64)
    }
}

/// exact value of a primitive as an integer scaled by 2^frac (ints, bool) -- None for floats
fn prim_scaled(prim: usize, b: u128, frac: u32) -> Option<Z> {
    if prim == 12 {
        return Some(Z::from_u128(b & 1).shl(frac));
    }
    prim_layout(prim).map(|pl| pl.z(b).shl(frac))
}

fn policy(l: Layout, form: usize, r: &Z) -> Option<Out> {
    let fits = l.fits(r);
    Some(match form {
        0 => {
            if fits {
                Out::V(l.wrap(r))
            } else {
                return None;
            }
        }
        1 => Out::O(if fits { Some(l.wrap(r)) } else { None }),
        2 => Out::V(l.sat(r)),
        3 => Out::V(l.wrap(r)),
        _ => Out::P(l.wrap(r), !fits),
    })
}

/// is the float (given by bits) exactly mag * 2^-frac (sign ignored)?
fn float_is_exact(prim: usize, bits: u64, mag: u128, frac: u32) -> bool {
    let d = if prim == 13 { ieee::dec32(bits as u32) } else { ieee::dec64(bits) };
    match d {
        Dec::Fin { m, e, .. } => {
            // m * 2^e == mag * 2^-frac  <=>  m * 2^(e+frac+1100) == mag * 2^1100
            let lhs = Z::from_u128(m as u128);
            let rhs = Z::from_u128(mag);
            let k = e + frac as i32;
            if m == 0 || mag == 0 {
                return m == 0 && mag == 0;
            }
            if k >= 0 {
                if k > 200 {
                    return false;
                }
                lhs.shl(k as u32) == rhs
            } else {
                if -k > 200 {
                    return false;
                }
                lhs == rhs.shl((-k) as u32)
            }
        }
        _ => false,
    }
}

/// expected outcome; None = unspecified. `got` is needed for impl detection.
fn expect(l: Layout, kind: usize, prim: usize, a: u128, b: u128, got: &Out) -> Option<Out> {
    let isf = prim >= 13;
    match kind {
        0..=4 => {
            if !isf {
                let r = prim_scaled(prim, b, l.frac).unwrap();
                policy(l, kind, &r)
            } else {
                match decode(prim, b) {
                    Dec::Nan => Some(if kind == 1 { Out::O(None) } else { Out::Panic }),
                    Dec::Inf { neg } => Some(match kind {
                        1 => Out::O(None),
                        2 => Out::V(if neg { l.min_raw() } else { l.max_raw() }),
                        _ => Out::Panic,
                    }),
                    Dec::Fin { neg, m, e } => match ieee::float_to_fixed_bits(neg, m, e, l.frac) {
                        Some(r) => policy(l, kind, &r),
                        None => Some(match kind {
                            0 => return None,
                            1 => Out::O(None),
                            2 => Out::V(if neg { l.min_raw() } else { l.max_raw() }),
                            3 => Out::V(0),
                            _ => Out::P(0, true),
                        }),
                    },
                }
            }
        }
        5..=9 => {
            if prim == 12 {
                return None;
            }
            if !isf {
                let pl = prim_layout(prim).unwrap();
                let r = l.z(a).shr_floor(l.frac);
                policy(pl, kind - 5, &r)
            } else {
                let za = l.z(a);
                let mag = za.abs().low128();
                let e = if prim == 13 { Out::F32(ieee::encode_f32(za.is_neg(), mag, l.frac)) } else { Out::F64(ieee::encode_f64(za.is_neg(), mag, l.frac)) };
                // all forms return the rounded value (checked: Some(value), which the dispatch flattens); when the
                // rounded value is an infinity the property fixes the value only, not None / the overflow flag
                let is_inf = match e {
                    Out::F32(b) => b & 0x7fff_ffff == 0x7f80_0000,
                    Out::F64(b) => b & 0x7fff_ffff_ffff_ffff == 0x7ff0_0000_0000_0000,
                    _ => false,
                };
                if is_inf && (kind == 6 || kind == 9) && *got != e {
                    return None;
                }
                Some(e)
            }
        }
        10 | 11 => {
            if prim == 12 {
                return None;
            }
            let o: Option<Ordering> = if !isf {
                Some(l.z(a).cmp(&prim_scaled(prim, b, l.frac).unwrap()))
            } else {
                match decode(prim, b) {
                    Dec::Nan => None,
                    Dec::Inf { neg } => Some(if neg { Ordering::Greater } else { Ordering::Less }),
                    Dec::Fin { neg, m, e } => Some(cmp_float(l, a, neg, m, e)),
                }
            };
            let o = if kind == 11 { o.map(|x| x.reverse()) } else { o };
            Some(Out::C(cmp_expected(o)))
        }
        12 | 13 => {
            // From / LossyFrom <prim> for fixed
            if *got == Out::C(NOIMPL) {
                return None;
            }
            if isf {
                return None; // the existence of impls is not specified
            }
            let r = prim_scaled(prim, b, l.frac).unwrap();
            Some(if l.fits(&r) { Out::V(l.wrap(&r)) } else { Out::E(1) })
        }
        14 | 15 => {
            if *got == Out::C(NOIMPL) {
                return None;
            }
            if prim == 12 {
                return None;
            }
            if !isf {
                let pl = prim_layout(prim).unwrap();
                let za = l.z(a);
                let r = za.shr_floor(l.frac);
                let exact = r.shl(l.frac) == za;
                if !pl.fits(&r) {
                    return Some(Out::E(2));
                }
                if kind == 14 && !exact {
                    return Some(Out::E(1));
                }
                Some(Out::V(pl.wrap(&r)))
            } else {
                let za = l.z(a);
                let mag = za.abs().low128();
                let bits = if prim == 13 { ieee::encode_f32(za.is_neg(), mag, l.frac) as u64 } else { ieee::encode_f64(za.is_neg(), mag, l.frac) };
                if kind == 14 && !float_is_exact(prim, bits, mag, l.frac) {
                    return Some(Out::E(1));
                }
                Some(if prim == 13 { Out::F32(bits as u32) } else { Out::F64(bits) })
            }
        }
        _ => {
            // same-type: cmp code | hash-eq | eq | partial_cmp | max
            let o = l.z(a).cmp(&l.z(b));
            let eq = (a & mask(l.w)) == (b & mask(l.w));
            let hash_bit = match got {
                Out::C(c) if !eq => (c >> 2) & 1, // unequal values may or may not collide
                _ => 1,
            };
            Some(Out::C(ordcode(Some(o)) | hash_bit << 2 | (eq as u64) << 3 | ordcode(Some(o)) << 4 | 1 << 6))
        }
    }
}

fn cmp_expected(o: Option<Ordering>) -> u64 {
    match o {
        None => 0b10,
        Some(o) => {
            (o == Ordering::Equal) as u64
                | ((o != Ordering::Equal) as u64) << 1
                | ((o == Ordering::Less) as u64) << 2
                | ((o != Ordering::Greater) as u64) << 3
                | ((o == Ordering::Greater) as u64) << 4
                | ((o != Ordering::Less) as u64) << 5
                | ordcode(Some(o)) << 6
        }
    }
}

/// ordering of the fixed value a*2^-frac relative to (-1)^neg * m * 2^e
fn cmp_float(l: Layout, a: u128, neg: bool, m: u64, e: i32) -> Ordering {
    let za = l.z(a);
    if m == 0 {
        return za.cmp(&Z::ZERO);
    }
    let zm = if neg { Z::from_u128(m as u128).neg() } else { Z::from_u128(m as u128) };
    let k = e + l.frac as i32; // compare za with zm * 2^k
    if k >= 0 {
        if k > 140 {
            return if neg { Ordering::Greater } else { Ordering::Less };
        }
        za.cmp(&zm.shl(k as u32))
    } else {
        let s = (-k) as u32;
        if s > 200 {
            // |float| is positive but below every non-zero fixed value
            return if za.is_zero() {
                if neg {
                    Ordering::Greater
                } else {
                    Ordering::Less
                }
            } else {
                za.cmp(&Z::ZERO)
            };
        }
        za.shl(s).cmp(&zm)
    }
}

struct Dom {
    fixed_conv: Vec<u128>,
    fixed_cmp: Vec<u128>,
}

fn fixed_domain(l: Layout, tier: Tier) -> Dom {
    match l.w {
        8 => Dom { fixed_conv: alpha::all_values(8), fixed_cmp: alpha::all_values(8) },
        16 => Dom { fixed_conv: alpha::all_values(16), fixed_cmp: alpha::boundary(l, tier) },
        _ => {
            let b = alpha::boundary(l, tier);
            let mut c = b.clone();
            let seen: std::collections::HashSet<u128> = c.iter().cloned().collect();
            for x in alpha::float_runs(l, tier) {
                if !seen.contains(&x) {
                    c.push(x);
                }
            }
            Dom { fixed_conv: c, fixed_cmp: alpha::boundary(l, Tier::Quick) }
        }
    }
}

/// comparison partners *related* to one fixed value, which the product of the two alphabets cannot contain: for an
/// integer type the floor of the value and its two neighbours; for a float type the float nearest to the value and
/// the floats one and two units in the last place either side of it (equal, or apart by less than either operand's
/// resolution, for irregular mid-range bit patterns as well)
/// Floats *related to the layout* for the float -> fixed conversions, which a product of a float alphabet with the
/// layouts cannot contain: for the extremes of the type, zero, one ulp, one and some mid-range patterns v, the
/// floats (4v + q) / 4 ulp for q = -3..3 (a quarter, a half — the tie — and three quarters of an ulp either side of
/// v; exact whenever 4v + q fits the float's precision, the nearest float otherwise) and the two floats on either
/// side of each. These decide "overflow is judged on the rounded value" at max + 1/4 ulp, max + 1/2 ulp (tie to
/// even), min - 1/2 ulp, and the rounding direction next to every such v.
fn related_floats(l: Layout, prim: usize) -> Vec<u128> {
    let m = mask(l.w);
    let mut vs: Vec<u128> = vec![l.max_raw(), l.max_raw() - 1, l.min_raw(), l.min_raw().wrapping_add(1) & m, 0, 1, m, 2, 3, l.max_raw() >> 1, (l.max_raw() >> 1) + 1];
    if l.frac < l.w {
        let one = 1u128 << l.frac;
        vs.extend([one & m, one.wrapping_neg() & m, one.wrapping_add(1) & m, one.wrapping_sub(1) & m]);
    }
    vs.extend(alpha::boundary(l, Tier::Quick).into_iter().step_by(9));
    let top: u128 = if prim == 13 { 0xffff_ffff } else { u64::MAX as u128 };
    let mut out = vec![];
    let mut seen = std::collections::HashSet::new();
    for v in vs {
        let z = l.z(v);
        for q in -3i64..=3 {
            let t = z.shl(2).add(Z::from_i128(q as i128));
            let neg = t.is_neg();
            let mag = t.abs();
            if !mag.fits_u128() {
                continue;
            }
            let mag = mag.low128();
            let bits: u128 = if prim == 13 { vcore::ieee::encode_f32(neg, mag, l.frac + 2) as u128 } else { vcore::ieee::encode_f64(neg, mag, l.frac + 2) as u128 };
            for d in [0i128, 1, -1, 2, -2] {
                let b = bits as i128 + d;
                if b >= 0 && (b as u128) <= top && seen.insert(b as u128) {
                    out.push(b as u128);
                }
            }
        }
    }
    out
}

/// Integers related to the layout for integer -> fixed conversions: the overflow boundaries +-2^(integer bits - 1),
/// 2^(integer bits), the extremes of the layout rounded to integers, each with its neighbours, as far as the
/// integer type holds them (the layout's boundary is a mid-range power of two of the integer type)
fn related_ints(l: Layout, prim: usize) -> Vec<u128> {
    let Some(pl) = prim_layout(prim) else { return vec![] };
    let ib = l.int_bits();
    let mut out = vec![];
    let mut seen = std::collections::HashSet::new();
    let mut targets: Vec<Z> = vec![l.z(l.max_raw()).shr_floor(l.frac), l.z(l.min_raw()).shr_floor(l.frac)];
    for k in [ib.saturating_sub(1), ib, ib + 1] {
        if k < 200 {
            targets.push(Z::pow2(k));
            targets.push(Z::pow2(k).neg());
        }
    }
    for t in targets {
        for off in [-2i128, -1, 0, 1, 2] {
            let z = t.add(Z::from_i128(off));
            if pl.fits(&z) {
                let raw = pl.wrap(&z);
                if seen.insert(raw) {
                    out.push(raw);
                }
            }
        }
    }
    out
}
/// Fixed-point values related to the primitive for fixed -> integer / float conversions: the integer type's extremes
/// and the first integers beyond them, expressed in the layout, with the neighbouring ulps (for a negative value
/// the floor matters: min - 1 ulp converts to min - 1)
fn related_fixed(l: Layout, prim: usize) -> Vec<u128> {
    let Some(pl) = prim_layout(prim) else { return vec![] };
    let one = Z::from_u128(1);
    let mut out = vec![];
    let mut seen = std::collections::HashSet::new();
    for t in [pl.z(pl.max_raw()), pl.z(pl.max_raw()).add(one), pl.z(pl.min_raw()), pl.z(pl.min_raw()).sub(one), pl.z(pl.max_raw()).add(one).shl(1)] {
        let base = t.shl(l.frac);
        for off in [-2i128, -1, 0, 1, 2] {
            let z = base.add(Z::from_i128(off));
            if l.fits(&z) {
                let raw = l.wrap(&z);
                if seen.insert(raw) {
                    out.push(raw);
                }
            }
        }
    }
    out
}

fn related_partners(l: Layout, a: u128, prim: usize) -> Vec<u128> {
    let mut v = vec![];
    if let Some(pl) = prim_layout(prim) {
        let fl = l.z(a).shr_floor(l.frac);
        let one = Z::from_u128(1);
        for z in [fl.sub(one), fl, fl.add(one)] {
            if pl.fits(&z) {
                v.push(pl.wrap(&z));
            }
        }
    } else if prim == 13 || prim == 14 {
        let neg = l.is_neg(a);
        let mag: u128 = if neg { a.wrapping_neg() & vcore::lay::mask(l.w) } else { a };
        let bits: u128 = if prim == 13 { vcore::ieee::encode_f32(neg, mag, l.frac) as u128 } else { vcore::ieee::encode_f64(neg, mag, l.frac) as u128 };
        let top: u128 = if prim == 13 { 0xffff_ffff } else { u64::MAX as u128 };
        for d in [0u128, 1, 2] {
            if bits + d <= top {
                v.push(bits + d);
            }
            if d > 0 && bits >= d {
                v.push(bits - d);
            }
        }
    }
    v
}

struct PrimDom {
    /// the explicit special floats (f32, f64): comparison partners of the probe-only layouts
    special: [Vec<u128>; 2],
    /// per prim: values used for conversions and for comparisons
    conv: Vec<Vec<u128>>,
    cmp: Vec<Vec<u128>>,
}

fn prim_domain(tier: Tier) -> PrimDom {
    let mut conv = vec![];
    let mut cmp = vec![];
    for p in 0..12 {
        let pl = prim_layout(p).unwrap();
        let (c, m) = match pl.w {
            8 => (alpha::all_values(8), alpha::all_values(8)),
            16 => (alpha::all_values(16), alpha::boundary(pl, tier)),
            _ => (alpha::boundary(pl, tier), alpha::boundary(pl, Tier::Quick)),
        };
        conv.push(c);
        cmp.push(m);
    }
    conv.push(vec![0, 1]);
    cmp.push(vec![]);
    let f32a: Vec<u128> = alpha::f32_alphabet(tier).into_iter().map(|x| x as u128).collect();
    let f64a: Vec<u128> = alpha::f64_alphabet(tier).into_iter().map(|x| x as u128).collect();
    let (s32, s64) = match tier {
        Tier::Quick => (25, 251),
        Tier::Thorough => (5, 25),
    };
    // comparisons use a thinned alphabet, but never without the special values
    let special32: Vec<u128> = [0u32, 1, 0x7fffff, 0x800000, 0x3f800000, 0x7f7fffff, 0x7f800000, 0x7f800001, 0x7fc00000, 0x7fffffff].iter().flat_map(|&b| [b as u128, (b | 0x8000_0000) as u128]).collect();
    let special64: Vec<u128> = [0u64, 1, 0xfffffffffffff, 0x10000000000000, 0x3ff0000000000000, 0x7fefffffffffffff, 0x7ff0000000000000, 0x7ff0000000000001, 0x7ff8000000000000, 0x7fffffffffffffff].iter().flat_map(|&b| [b as u128, (b | 1 << 63) as u128]).collect();
    let thin = |all: &Vec<u128>, special: &Vec<u128>, step: usize| -> Vec<u128> {
        let mut v = special.clone();
        let seen: std::collections::HashSet<u128> = v.iter().cloned().collect();
        // both signs of every step-th magnitude
        for ch in all.chunks(2).step_by(step) {
            for &x in ch {
                if !seen.contains(&x) {
                    v.push(x);
                }
            }
        }
        v
    };
    cmp.push(thin(&f32a, &special32, s32));
    cmp.push(thin(&f64a, &special64, s64));
    conv.push(f32a);
    conv.push(f64a);
    PrimDom { conv, cmp, special: [special32, special64] }
}

fn selects(prop: Prop, kind: usize, prim: usize) -> bool {
    let isf = prim >= 13;
    match prop {
        Prop::C03 => kind == 10 || kind == 11 || kind == 16,
        Prop::C04 => !isf && kind < 16 && kind != 10 && kind != 11,
        Prop::C05 => isf && kind < 16 && kind != 10 && kind != 11,
        Prop::C11 => true,
    }
}

fn case(l: Layout, kind: usize, prim: usize, a: u128, b: u128) -> String {
    format!("prim {} {} {} {:#x} {:#x}", l.name(), KINDS[kind], PRIMS[prim], a, b)
}

struct JobOut {
    rep: Report,
    dig: Vec<(String, u64)>,
    returned: Vec<(String, Out)>,
}

fn run_layout(e: &Entry, pd: &PrimDom, prop: Prop, tier: Tier) -> JobOut {
    let l = e.l;
    let fd = fixed_domain(l, tier);
    let mut rep = Report::new(crate::NAME, "", tier.name());
    let nops = KINDS.len() * 16;
    let mut tally = Tally::new(nops);
    let mut dig: Vec<Option<std::collections::hash_map::DefaultHasher>> = (0..nops).map(|_| None).collect();
    let mut returned = vec![];
    let c11 = prop == Prop::C11;
    let ponly = e.probe_only;
    // probe-only layouts: impl probes against every primitive, and the float conversions and comparisons on thin sets
    let selects = |prop: Prop, kind: usize, prim: usize| selects(prop, kind, prim) && (!ponly || (12..16).contains(&kind) || (prim >= 13 && kind < 12));
    let mut visit = |rep: &mut Report, kind: usize, prim: usize, a: u128, b: u128| {
        let opi = kind * 16 + prim;
        // skip unspecified plain-form cases outside C11 without executing them
        if !c11 && (kind == 0 || kind == 5) {
            if expect(l, kind, prim, a, b, &Out::Panic).is_none() {
                return;
            }
        }
        let got = call(e, kind, prim, a, b);
        rep.transitions += 1;
        tally.counts[opi][got.class()] += 1;
        let exp = expect(l, kind, prim, a, b, &got);
        if c11 {
            let permitted = exp.is_none() && (kind == 0 || kind == 5);
            if permitted {
                if vcore::CHECKED_PROFILE && got != Out::Panic {
                    returned.push((case(l, kind, prim, a, b), got));
                }
            } else {
                let h = dig[opi].get_or_insert_with(Default::default);
                h.write_u128(a);
                h.write_u128(b);
                got.feed(h);
            }
            return;
        }
        let Some(exp) = exp else { return };
        rep.judged += 1;
        tally.judged[opi] += 1;
        if got != exp {
            let fam = if prim >= 13 { "float" } else { "int" };
            rep.violation(Violation {
                key: format!("{} {}<{}>", l.class(), KINDS[kind], PRIMS[prim]),
                diff: match exp {
                    Out::E(1) => "From-not-value-preserving".into(),
                    Out::E(2) => "LossyFrom-loses-integer-bits".into(),
                    Out::E(3) => "unexpected-impl".into(),
                    _ => format!("{}:{}", fam, diff_class(&got, &exp)),
                },
                case: case(l, kind, prim, a, b),
                observed: got.to_string(),
                expected: exp.to_string(),
                note: describe(l, kind, prim, a, b),
                kf: None,
            });
        }
    };
    for prim in 0..15 {
        // prim -> fixed
        let any_from = (0..5).chain(12..14).any(|k| selects(prop, k, prim));
        if any_from {
            let relf = if prim >= 13 { related_floats(l, prim) } else { related_ints(l, prim) };
            for &b in (if ponly && prim >= 13 { &pd.cmp[prim] } else { &pd.conv[prim] }).iter().chain(relf.iter()) {
                rep.states += 1;
                if b != 0 {
                    rep.nontrivial_states += 1;
                }
                for kind in (0..5).chain(12..14) {
                    if selects(prop, kind, prim) {
                        visit(&mut rep, kind, prim, 0, b);
                    }
                }
            }
        }
        // fixed -> prim
        let any_to = (5..10).chain(14..16).any(|k| selects(prop, k, prim));
        if any_to && prim != 12 {
            let relx = if l.w > 16 { related_fixed(l, prim) } else { vec![] };
            for &a in fd.fixed_conv.iter().chain(relx.iter()) {
                rep.states += 1;
                if a != 0 {
                    rep.nontrivial_states += 1;
                }
                for kind in (5..10).chain(14..16) {
                    if selects(prop, kind, prim) {
                        visit(&mut rep, kind, prim, a, 0);
                    }
                }
            }
        }
        // comparisons
        if selects(prop, 10, prim) && prim != 12 {
            for &a in &fd.fixed_cmp {
                let rel = if l.w > 8 { related_partners(l, a, prim) } else { vec![] };
                for &b in (if ponly { &pd.special[prim - 13] } else { &pd.cmp[prim] }).iter().chain(rel.iter()) {
                    rep.states += 1;
                    if a != 0 || b != 0 {
                        rep.nontrivial_states += 1;
                    }
                    visit(&mut rep, 10, prim, a, b);
                    visit(&mut rep, 11, prim, a, b);
                }
            }
        }
    }
    if selects(prop, 16, 0) {
        let v = if l.w == 8 { alpha::all_values(8) } else { alpha::boundary(l, Tier::Quick) };
        for &a in &v {
            for &b in &v {
                rep.states += 1;
                rep.nontrivial_states += 1;
                visit(&mut rep, 16, 0, a, b);
            }
        }
    }
    drop(visit);
    let names: Vec<String> = (0..nops).map(|i| format!("{}<{}>", KINDS[i / 16], PRIMS.get(i % 16).unwrap_or(&"-"))).collect();
    let names_ref: Vec<&str> = names.iter().map(|s| s.as_str()).collect();
    rep.add_tally(&l.class(), &names_ref, &tally);
    let dig = dig.into_iter().enumerate().filter_map(|(i, h)| h.map(|h| (format!("{} {} {}", l.name(), KINDS[i / 16], PRIMS[i % 16]), h.finish()))).collect();
    JobOut { rep, dig, returned }
}

/// layouts that receive all 2^32 f32 patterns in the thorough tier (whichever of them this binary compiles)
const F32_SWEEP: [&str; 13] = ["I8F0", "U8F0", "I4F4", "U0F8", "I0F8", "I16F16", "U16F16", "I9F23", "I32F32", "U64F64", "I64F64", "U0F128", "I2F126"];

fn f32_sweep(e: &Entry, part: u32) -> JobOut {
    let l = e.l;
    let mut rep = Report::new(crate::NAME, "", "thorough");
    let nops = KINDS.len() * 16;
    let mut tally = Tally::new(nops);
    let lo = (part as u64) << 24;
    for bits in lo..lo + (1u64 << 24) {
        let b = bits as u128;
        rep.states += 1;
        rep.nontrivial_states += 1;
        for kind in [1usize, 2, 4] {
            let got = call(e, kind, 13, 0, b);
            rep.transitions += 1;
            tally.counts[kind * 16 + 13][got.class()] += 1;
            let Some(exp) = expect(l, kind, 13, 0, b, &got) else { continue };
            rep.judged += 1;
            tally.judged[kind * 16 + 13] += 1;
            if got != exp {
                rep.violation(Violation {
                    key: format!("{} {}<f32>", l.class(), KINDS[kind]),
                    diff: format!("float:{}", diff_class(&got, &exp)),
                    case: case(l, kind, 13, 0, b),
                    observed: got.to_string(),
                    expected: exp.to_string(),
                    note: describe(l, kind, 13, 0, b),
                    kf: None,
                });
            }
        }
    }
    let names: Vec<String> = (0..nops).map(|i| format!("{}<{}>", KINDS[i / 16], PRIMS.get(i % 16).unwrap_or(&"-"))).collect();
    let names_ref: Vec<&str> = names.iter().map(|s| s.as_str()).collect();
    rep.add_tally(&l.class(), &names_ref, &tally);
    JobOut { rep, dig: vec![], returned: vec![] }
}

fn describe(l: Layout, kind: usize, prim: usize, a: u128, b: u128) -> String {
    let mut s = String::new();
    if kind >= 5 && kind != 12 && kind != 13 {
        s.push_str(&format!("fixed value = {} * 2^-{}; ", l.z(a), l.frac));
    }
    if kind < 5 || (10..14).contains(&kind) {
        if prim >= 13 {
            s.push_str(&format!("float = {:?}", decode(prim, b)));
            if prim == 13 {
                s.push_str(&format!(" ({:e})", f32::from_bits(b as u32)));
            } else {
                s.push_str(&format!(" ({:e})", f64::from_bits(b as u64)));
            }
        } else if let Some(pl) = prim_layout(prim) {
            s.push_str(&format!("integer = {}", pl.z(b)));
        }
    }
    s
}

fn cmd_run(args: &Args) {
    let prop = match args.get("prop").expect("--prop").as_str() {
        "C03" => Prop::C03,
        "C04" => Prop::C04,
        "C05" => Prop::C05,
        "C11" => Prop::C11,
        p => panic!("prim does not serve {}", p),
    };
    let tier = Tier::parse(&args.get("tier").unwrap_or("quick".into()));
    let only = args.get("only");
    let t0 = std::time::Instant::now();
    let tab: Vec<Entry> = table().into_iter().filter(|e| only.as_ref().map_or(true, |o| *o == e.l.name() || *o == e.l.family())).collect();
    let pd = prim_domain(tier);
    let mut results = run_jobs(&tab, |e| run_layout(e, &pd, prop, tier));
    // From / LossyFrom existence and value at every other fractional-bit count (second table, `prim` only)
    let ptab: Vec<Entry> = if prop != Prop::C11 { ponly::table().into_iter().filter(|e| only.as_ref().map_or(true, |o| *o == e.l.name() || *o == e.l.family())).collect() } else { vec![] };
    results.extend(run_jobs(&ptab, |e| run_layout(e, &pd, prop, tier)));
    let probe_only_layouts = ptab.len() as u64;
    // `LossyFrom` between primitives (integer -> wider integer, bool -> integer under C04; integer -> float under C05):
    // wherever the crate has the impl, an integer destination must hold the source value and a float destination
    // must be the correctly rounded value. Only the engine that owns the full tables runs it.
    if crate::NAME == "prim" && (prop == Prop::C04 || prop == Prop::C05) && only.is_none() {
        let mut r = Report::new(crate::NAME, "", tier.name());
        let mut impls = 0u64;
        for src in 0..13usize {
            for dst in (0..15usize).filter(|d| *d != 12) {
                let to_float = dst >= 13;
                if to_float != (prop == Prop::C05) {
                    continue;
                }
                let mut exists = false;
                for &a in &pd.conv[src] {
                    let got = subject(|| prim_lossy(src, dst, a)).unwrap_or(Out::Panic);
                    if got == Out::C(NOIMPL) {
                        break;
                    }
                    exists = true;
                    r.states += 1;
                    r.transitions += 1;
                    r.judged += 1;
                    // exact source value
                    let z = if src == 12 { Z::from_u128(a & 1) } else { prim_layout(src).unwrap().z(a) };
                    let exp = if to_float {
                        let mag = z.abs().low128();
                        if dst == 13 { Out::F32(ieee::encode_f32(z.is_neg(), mag, 0)) } else { Out::F64(ieee::encode_f64(z.is_neg(), mag, 0)) }
                    } else {
                        let dl = prim_layout(dst).unwrap();
                        if dl.fits(&z) { Out::V(dl.wrap(&z)) } else { Out::E(2) }
                    };
                    if got != exp {
                        r.violation(Violation {
                            key: format!("prim-to-prim LossyFrom<{}> for {}", PRIMS[src], PRIMS[dst]),
                            diff: if exp == Out::E(2) { "LossyFrom-loses-integer-bits".into() } else { "value".into() },
                            case: format!("prim-lossy {} {} {:#x}", PRIMS[src], PRIMS[dst], a),
                            observed: got.to_string(),
                            expected: exp.to_string(),
                            note: format!("{}::lossy_from({} {})", PRIMS[dst], PRIMS[src], z),
                            kf: None,
                        });
                    }
                }
                impls += exists as u64;
            }
        }
        r.extra.insert("prim_to_prim_lossyfrom_impls_exercised".into(), impls);
        results.push(JobOut { rep: r, dig: vec![], returned: vec![] });
    }
    // thorough tier, C05: every one of the 2^32 f32 bit patterns into a fixed list of layouts
    let mut swept = vec![];
    if prop == Prop::C05 && tier == Tier::Thorough && !args.has("no-exhaustive") {
        let jobs: Vec<(usize, u32)> = tab.iter().enumerate().filter(|(_, e)| F32_SWEEP.contains(&e.l.name().as_str())).flat_map(|(i, _)| (0..256u32).map(move |p| (i, p))).collect();
        swept = tab.iter().filter(|e| F32_SWEEP.contains(&e.l.name().as_str())).map(|e| e.l.name()).collect();
        results.extend(run_jobs(&jobs, |(i, part)| f32_sweep(&tab[*i], *part)));
    }
    let mut rep = Report::new(crate::NAME, &args.get("prop").unwrap(), tier.name());
    if !swept.is_empty() {
        rep.complete_subspaces.push(format!("every one of the 2^32 f32 bit patterns converted (checked, saturating, overflowing) into each of {}", swept.join(", ")));
    }
    let mut returned = vec![];
    for r in results {
        for (k, d) in r.dig {
            rep.digests.insert(k, format!("{:016x}", d));
        }
        returned.extend(r.returned);
        rep.merge(r.rep);
    }
    rep.layouts = tab.len() as u64 + probe_only_layouts;
    if probe_only_layouts > 0 {
        rep.extra.insert("layouts_with_from_lossyfrom_probes_only".into(), probe_only_layouts);
    }
    // samples
    for (i, (kind, prim)) in [(4usize, 13usize), (9, 14), (10, 13), (4, 3), (9, 10), (10, 6)].iter().enumerate() {
        if !selects(prop, *kind, *prim) {
            continue;
        }
        let e = &tab[(i * 97 + 5) % tab.len()];
        let a = *fixed_domain(e.l, tier).fixed_cmp.get(7).unwrap_or(&1);
        let b = pd.conv[*prim][pd.conv[*prim].len() / 3];
        let got = call(e, *kind, *prim, a, b);
        rep.samples.push(format!("{} -> {} ({})", case(e.l, *kind, *prim, a, b), got, describe(e.l, *kind, *prim, a, b)));
    }
    if prop == Prop::C11 {
        if let Some(path) = args.get("returned-out") {
            let mut s = String::new();
            for (c, o) in &returned {
                s.push_str(&format!("{}\t{}\n", c, o));
            }
            std::fs::write(path, s).unwrap();
        }
        rep.extra.insert("permitted_cases_returned_in_this_build".into(), returned.len() as u64);
    }
    rep.extra.insert("f32_alphabet".into(), pd.conv[13].len() as u64);
    rep.extra.insert("f64_alphabet".into(), pd.conv[14].len() as u64);
    rep.complete_subspaces = vec![
        "all values of the 8- and 16-bit layouts for fixed -> primitive conversions".into(),
        "all values of i8/u8/i16/u16/bool for primitive -> fixed conversions into all 506 layouts".into(),
        "all 256 x 256 (fixed, i8/u8) pairs of the 8-bit layouts for comparisons, all 65536 same-type pairs of the 8-bit layouts for Ord/Eq/Hash".into(),
        "f32: all 256 exponents x structured mantissas x both signs".into(),
    ];
    rep.wall_s = t0.elapsed().as_secs_f64();
    rep.write(&args.get("out").expect("--out"));
    println!(
        "prim prop={} tier={} profile={} layouts={} states={} transitions={} judged={} mismatches={} wall={:.1}s",
        rep.prop,
        rep.tier,
        vcore::profile_name(),
        rep.layouts,
        rep.states,
        rep.transitions,
        rep.judged,
        rep.violation_counts.values().sum::<u64>(),
        rep.wall_s
    );
}

fn parse_hex(s: &str) -> u128 {
    u128::from_str_radix(s.trim_start_matches("0x"), 16).expect("hex operand")
}

fn exec_case(tab: &[Entry], p: &[&str]) -> (Layout, usize, usize, u128, u128, Out) {
    let l = Layout::parse(p[0]).expect("layout");
    let e = tab.iter().find(|e| e.l == l).unwrap();
    let kind = KINDS.iter().position(|k| *k == p[1]).expect("kind");
    let prim = PRIMS.iter().position(|k| *k == p[2]).expect("prim");
    let (a, b) = (parse_hex(p[3]), parse_hex(p[4]));
    (l, kind, prim, a, b, call(e, kind, prim, a, b))
}

fn cmd_replay(a: &[String]) -> i32 {
    if a.len() == 3 && PRIMS.contains(&a[0].as_str()) {
        // prim-lossy SRC DST A
        let (src, dst) = (PRIMS.iter().position(|p| *p == a[0]).unwrap(), PRIMS.iter().position(|p| *p == a[1]).unwrap());
        let x = parse_hex(&a[2]);
        let got = subject(|| prim_lossy(src, dst, x)).unwrap_or(Out::Panic);
        let z = if src == 12 { Z::from_u128(x & 1) } else { prim_layout(src).unwrap().z(x) };
        let exp = if dst >= 13 {
            let mag = z.abs().low128();
            if dst == 13 { Out::F32(ieee::encode_f32(z.is_neg(), mag, 0)) } else { Out::F64(ieee::encode_f64(z.is_neg(), mag, 0)) }
        } else {
            let dl = prim_layout(dst).unwrap();
            if dl.fits(&z) { Out::V(dl.wrap(&z)) } else { Out::E(2) }
        };
        println!("profile:  {}\ncall:     {}::lossy_from({} {})\nobserved: {}\nexpected: {}", vcore::profile_name(), a[1], a[0], z, got, exp);
        println!("{}", if got == exp { "AGREES" } else { "DIFFERS" });
        return if got == exp { 0 } else { 1 };
    }
    let mut tab = table();
    tab.extend(ponly::table());
    let p: Vec<&str> = a.iter().map(|s| s.as_str()).collect();
    let (l, kind, prim, x, y, got) = exec_case(&tab, &p);
    println!("profile:  {}", vcore::profile_name());
    println!("call:     {}", a.join(" "));
    println!("inputs:   {}", describe(l, kind, prim, x, y));
    println!("observed: {}", got);
    match expect(l, kind, prim, x, y, &got) {
        Some(e) => {
            println!("expected: {}", e);
            if e == got {
                println!("AGREES");
                0
            } else {
                println!("DIFFERS");
                1
            }
        }
        None => {
            println!("expected: (unspecified)");
            0
        }
    }
}

fn cmd_recheck(path: &str, out: &str) {
    let tab = table();
    let text = std::fs::read_to_string(path).expect("recheck file");
    let mut rep = Report::new(crate::NAME, "C11", "recheck");
    for line in text.lines() {
        let (case, other) = line.split_once('\t').expect("bad recheck line");
        let p: Vec<&str> = case.split_whitespace().collect();
        let (l, kind, prim, _, _, got) = exec_case(&tab, &p[1..]);
        rep.transitions += 1;
        rep.judged += 1;
        if got.to_string() != other {
            rep.violation(Violation {
                key: format!("{} {}<{}>", l.class(), KINDS[kind], PRIMS[prim]),
                diff: "profile-dependent".into(),
                case: case.to_string(),
                observed: format!("{}: {}", vcore::profile_name(), got),
                expected: format!("other profile: {}", other),
                note: "both builds returned normally with different values, or this build panicked where the checking build returned".into(),
                kf: None,
            });
        }
    }
    rep.write(out);
    println!("prim recheck: {} cases, {} mismatches", rep.transitions, rep.violation_counts.values().sum::<u64>());
}

fn cmd_dump(args: &Args) {
    // dump <layout> <kind> <prim> --tier T
    let l = Layout::parse(&args.v[1]).unwrap();
    let kind = KINDS.iter().position(|k| *k == args.v[2]).unwrap();
    let prim = PRIMS.iter().position(|k| *k == args.v[3]).unwrap();
    let tier = Tier::parse(&args.get("tier").unwrap_or("quick".into()));
    let tab = table();
    let e = tab.iter().find(|e| e.l == l).unwrap();
    let pd = prim_domain(tier);
    let fd = fixed_domain(l, tier);
    use std::io::Write;
    let mut o = std::io::BufWriter::new(std::io::stdout().lock());
    let mut emit = |a: u128, b: u128| {
        let got = call(e, kind, prim, a, b);
        let exp = expect(l, kind, prim, a, b, &got);
        if exp.is_none() && (kind == 0 || kind == 5) {
            return;
        }
        writeln!(o, "{}\t{}", case(l, kind, prim, a, b), got).unwrap();
    };
    match kind {
        0..=4 | 12 | 13 => {
            for &b in &pd.conv[prim] {
                emit(0, b);
            }
        }
        5..=9 | 14 | 15 => {
            for &a in &fd.fixed_conv {
                emit(a, 0);
            }
        }
        10 | 11 => {
            for &a in &fd.fixed_cmp {
                let rel = if l.w > 8 { related_partners(l, a, prim) } else { vec![] };
                for &b in pd.cmp[prim].iter().chain(rel.iter()) {
                    emit(a, b);
                }
            }
        }
        _ => {
            let v = if l.w == 8 { alpha::all_values(8) } else { alpha::boundary(l, Tier::Quick) };
            for &a in &v {
                for &b in &v {
                    emit(a, b);
                }
            }
        }
    }
}

pub fn main() {
    vcore::par::install_hook();
    let args = Args::from_env();
    match args.cmd() {
        "run" => cmd_run(&args),
        "replay" => std::process::exit(cmd_replay(&args.v[1..])),
        "recheck" => cmd_recheck(&args.v[1], &args.get("out").expect("--out")),
        "dump" => cmd_dump(&args),
        _ => {
            eprintln!("usage: prim run --prop C03|C04|C05|C11 --tier T --out FILE [--only L] | replay L KIND PRIM A B | recheck FILE --out FILE | dump L KIND PRIM --tier T");
            std::process::exit(2);
        }
    }
}
