//! Outcome of one call on the subject, in a form that can be compared, hashed and printed.
use std::fmt;

#[derive(PartialEq, Eq, Debug, Clone, Copy, Hash)]
pub enum Out {
    /// plain value (raw bits)
    V(u128),
    /// Option<value>
    O(Option<u128>),
    /// (value, overflow flag)
    P(u128, bool),
    /// boolean / small code
    C(u64),
    /// f32 bits
    F32(u32),
    /// f64 bits
    F64(u64),
    /// Result::Err / parse error kind code
    E(u8),
    /// the call unwound
    Panic,
}

impl fmt::Display for Out {
    fn fmt(&self, f: &mut fmt::Formatter) -> fmt::Result {
        match self {
            Out::V(v) => write!(f, "{:#x}", v),
            Out::O(Some(v)) => write!(f, "Some({:#x})", v),
            Out::O(None) => write!(f, "None"),
            Out::P(v, o) => write!(f, "({:#x}, {})", v, o),
            Out::C(c) => write!(f, "code({:#x})", c),
            Out::F32(b) => write!(f, "f32({:#010x} = {:e})", b, f32::from_bits(*b)),
            Out::F64(b) => write!(f, "f64({:#018x} = {:e})", b, f64::from_bits(*b)),
            Out::E(k) => write!(f, "Err({})", k),
            Out::Panic => write!(f, "panic"),
        }
    }
}

/// outcome classes used for coverage accounting
pub const CLASSES: [&str; 10] = ["value", "none", "flag-set", "sat-low", "sat-high", "err", "panic", "zero", "code", "float"];
pub const NCLASS: usize = CLASSES.len();

impl Out {
    pub fn class(&self) -> usize {
        match self {
            Out::V(0) => 7,
            Out::V(_) => 0,
            Out::O(Some(_)) => 0,
            Out::O(None) => 1,
            Out::P(_, false) => 0,
            Out::P(_, true) => 2,
            Out::C(_) => 8,
            Out::F32(_) | Out::F64(_) => 9,
            Out::E(_) => 5,
            Out::Panic => 6,
        }
    }
    pub fn feed(&self, h: &mut impl std::hash::Hasher) {
        use std::hash::Hash;
        self.hash(h);
    }
}

/// how observed and expected differ, for grouping reports
pub fn diff_class(got: &Out, exp: &Out) -> &'static str {
    match (got, exp) {
        (Out::Panic, _) => "unexpected-panic",
        (_, Out::Panic) => "missing-panic",
        (Out::O(None), Out::O(Some(_))) => "spurious-none",
        (Out::O(Some(_)), Out::O(None)) => "missing-none",
        (Out::P(a, x), Out::P(b, y)) if a == b && x != y => "flag",
        (Out::P(a, x), Out::P(b, y)) if a != b && x == y && *x => "value-on-overflow",
        (Out::P(a, x), Out::P(b, y)) if a != b && x == y => "value",
        (Out::P(..), Out::P(..)) => "value+flag",
        (Out::E(_), Out::E(_)) => "error-kind",
        (Out::E(_), _) => "spurious-err",
        (_, Out::E(_)) => "missing-err",
        _ => "value",
    }
}
