//! Boring sign-magnitude big integer with a fixed number of 64-bit limbs. Reference
//! arithmetic only: never calls the subject, panics on its own overflow (a machinery
//! error, never a verdict).
use std::cmp::Ordering;


#[derive(Clone, Copy, PartialEq, Eq, Debug)]
pub struct ZN<const L: usize> {
    pub neg: bool,
    pub m: [u64; L],
}

fn mag_cmp<const L: usize>(a: &[u64; L], b: &[u64; L]) -> Ordering {
    for i in (0..L).rev() {
        if a[i] != b[i] {
            return a[i].cmp(&b[i]);
        }
    }
    Ordering::Equal
}
fn mag_is_zero<const L: usize>(a: &[u64; L]) -> bool {
    a.iter().all(|&x| x == 0)
}
fn mag_add<const L: usize>(a: &[u64; L], b: &[u64; L]) -> [u64; L] {
    let mut r = [0u64; L];
    let mut c = 0u128;
    for i in 0..L {
        let s = a[i] as u128 + b[i] as u128 + c;
        r[i] = s as u64;
        c = s >> 64;
    }
    assert!(c == 0, "Z overflow");
    r
}
// a >= b
fn mag_sub<const L: usize>(a: &[u64; L], b: &[u64; L]) -> [u64; L] {
    let mut r = [0u64; L];
    let mut br = 0i128;
    for i in 0..L {
        let d = a[i] as i128 - b[i] as i128 - br;
        if d < 0 {
            r[i] = (d + (1i128 << 64)) as u64;
            br = 1;
        } else {
            r[i] = d as u64;
            br = 0;
        }
    }
    assert!(br == 0);
    r
}
fn mag_mul<const L: usize>(a: &[u64; L], b: &[u64; L]) -> [u64; L] {
    let mut r = [0u64; L];
    for i in 0..L {
        if a[i] == 0 {
            continue;
        }
        let mut c = 0u128;
        for j in 0..L {
            if i + j >= L {
                assert!(b[j] == 0, "Z mul overflow");
                continue;
            }
            let t = a[i] as u128 * b[j] as u128 + r[i + j] as u128 + c;
            r[i + j] = t as u64;
            c = t >> 64;
        }
        assert!(c == 0, "Z mul overflow");
    }
    r
}
fn mag_shl<const L: usize>(a: &[u64; L], n: u32) -> [u64; L] {
    let mut r = [0u64; L];
    let w = (n / 64) as usize;
    let b = n % 64;
    for i in 0..L {
        if a[i] == 0 {
            continue;
        }
        assert!(i + w < L, "Z shl overflow");
        r[i + w] |= a[i] << b;
        if b != 0 {
            let hi = a[i] >> (64 - b);
            if hi != 0 {
                assert!(i + w + 1 < L, "Z shl overflow");
                r[i + w + 1] |= hi;
            }
        }
    }
    r
}
fn mag_shr<const L: usize>(a: &[u64; L], n: u32) -> ([u64; L], bool) {
    // returns (a >> n, lost_nonzero)
    let mut r = [0u64; L];
    let w = (n / 64) as usize;
    let b = n % 64;
    let mut lost = false;
    for i in 0..L {
        if i < w {
            if a[i] != 0 {
                lost = true;
            }
            continue;
        }
        r[i - w] |= a[i] >> b;
        if b != 0 {
            if i - w >= 1 {
                r[i - w - 1] |= a[i] << (64 - b);
            } else if a[i] << (64 - b) != 0 {
                lost = true;
            }
        }
    }
    (r, lost)
}
fn mag_bits<const L: usize>(a: &[u64; L]) -> u32 {
    for i in (0..L).rev() {
        if a[i] != 0 {
            return i as u32 * 64 + 64 - a[i].leading_zeros();
        }
    }
    0
}
fn mag_divrem<const L: usize>(a: &[u64; L], b: &[u64; L]) -> ([u64; L], [u64; L]) {
    assert!(!mag_is_zero(b), "Z div by zero");
    // fast path
    if a[2..].iter().all(|&x| x == 0) && b[2..].iter().all(|&x| x == 0) {
        let x = (a[1] as u128) << 64 | a[0] as u128;
        let y = (b[1] as u128) << 64 | b[0] as u128;
        let (q, r) = (x / y, x % y);
        let mut qq = [0u64; L];
        let mut rr = [0u64; L];
        qq[0] = q as u64;
        qq[1] = (q >> 64) as u64;
        rr[0] = r as u64;
        rr[1] = (r >> 64) as u64;
        return (qq, rr);
    }
    let mut q = [0u64; L];
    let mut r = [0u64; L];
    let n = mag_bits(a);
    for i in (0..n).rev() {
        r = mag_shl(&r, 1);
        if (a[(i / 64) as usize] >> (i % 64)) & 1 == 1 {
            r[0] |= 1;
        }
        if mag_cmp(&r, b) != Ordering::Less {
            r = mag_sub(&r, b);
            q[(i / 64) as usize] |= 1 << (i % 64);
        }
    }
    (q, r)
}

impl<const L: usize> ZN<L> {
    pub const ZERO: Self = ZN { neg: false, m: [0; L] };
    fn norm(mut self) -> Self {
        if mag_is_zero(&self.m) {
            self.neg = false;
        }
        self
    }
    pub fn from_u128(x: u128) -> Self {
        let mut m = [0u64; L];
        m[0] = x as u64;
        m[1] = (x >> 64) as u64;
        Self { neg: false, m }
    }
    pub fn from_i128(x: i128) -> Self {
        let mut z = Self::from_u128(x.unsigned_abs());
        z.neg = x < 0;
        z
    }
    pub fn one() -> Self {
        Self::from_u128(1)
    }
    pub fn pow2(n: u32) -> Self {
        Self::one().shl(n)
    }
    pub fn is_zero(&self) -> bool {
        mag_is_zero(&self.m)
    }
    pub fn is_neg(&self) -> bool {
        self.neg
    }
    pub fn neg(self) -> Self {
        Self { neg: !self.neg, m: self.m }.norm()
    }
    pub fn abs(self) -> Self {
        Self { neg: false, m: self.m }
    }
    pub fn add(self, o: Self) -> Self {
        if self.neg == o.neg {
            Self { neg: self.neg, m: mag_add(&self.m, &o.m) }.norm()
        } else {
            match mag_cmp(&self.m, &o.m) {
                Ordering::Less => Self { neg: o.neg, m: mag_sub(&o.m, &self.m) }.norm(),
                _ => Self { neg: self.neg, m: mag_sub(&self.m, &o.m) }.norm(),
            }
        }
    }
    pub fn sub(self, o: Self) -> Self {
        self.add(o.neg())
    }
    pub fn mul(self, o: Self) -> Self {
        Self { neg: self.neg != o.neg, m: mag_mul(&self.m, &o.m) }.norm()
    }
    pub fn shl(self, n: u32) -> Self {
        Self { neg: self.neg, m: mag_shl(&self.m, n) }.norm()
    }
    /// floor(self / 2^n)
    pub fn shr_floor(self, n: u32) -> Self {
        let (m, lost) = mag_shr(&self.m, n);
        let z = Self { neg: self.neg, m }.norm();
        if self.neg && lost {
            z.sub(Self::one())
        } else {
            z
        }
    }
    /// truncated division
    pub fn divrem_trunc(self, o: Self) -> (Self, Self) {
        let (q, r) = mag_divrem(&self.m, &o.m);
        (Self { neg: self.neg != o.neg, m: q }.norm(), Self { neg: self.neg, m: r }.norm())
    }
    /// euclidean: r in [0, |o|)
    pub fn divrem_euclid(self, o: Self) -> (Self, Self) {
        let (q, r) = self.divrem_trunc(o);
        if r.is_neg() {
            if o.is_neg() {
                (q.add(Self::one()), r.sub(o))
            } else {
                (q.sub(Self::one()), r.add(o))
            }
        } else {
            (q, r)
        }
    }
    /// floor division
    pub fn div_floor(self, o: Self) -> Self {
        let (q, r) = self.divrem_trunc(o);
        if !r.is_zero() && (r.is_neg() != o.is_neg()) {
            q.sub(Self::one())
        } else {
            q
        }
    }
    pub fn cmp(&self, o: &Self) -> Ordering {
        match (self.neg, o.neg) {
            (false, true) => Ordering::Greater,
            (true, false) => Ordering::Less,
            (false, false) => mag_cmp(&self.m, &o.m),
            (true, true) => mag_cmp(&o.m, &self.m),
        }
    }
    pub fn lt(&self, o: &Self) -> bool {
        self.cmp(o) == Ordering::Less
    }
    pub fn le(&self, o: &Self) -> bool {
        self.cmp(o) != Ordering::Greater
    }
    /// self mod 2^128 as raw u128 (two's complement wrap)
    pub fn low128(&self) -> u128 {
        let lo = (self.m[1] as u128) << 64 | self.m[0] as u128;
        if self.neg {
            lo.wrapping_neg()
        } else {
            lo
        }
    }
    pub fn is_odd(&self) -> bool {
        self.m[0] & 1 == 1
    }
    /// number of significant bits of the magnitude
    pub fn bits(&self) -> u32 {
        mag_bits(&self.m)
    }
    pub fn from_u64(x: u64) -> Self {
        Self::from_u128(x as u128)
    }
    /// self * k for a small k
    pub fn mul_small(self, k: u64) -> Self {
        let mut r = [0u64; L];
        let mut c = 0u128;
        for i in 0..L {
            let t = self.m[i] as u128 * k as u128 + c;
            r[i] = t as u64;
            c = t >> 64;
        }
        assert!(c == 0, "Z mul_small overflow");
        Self { neg: self.neg, m: r }.norm()
    }
    /// (|self| / k, |self| % k) with the sign of self on the quotient (truncated)
    pub fn divrem_small(self, k: u64) -> (Self, u64) {
        assert!(k != 0);
        let mut q = [0u64; L];
        let mut rem = 0u128;
        for i in (0..L).rev() {
            let cur = (rem << 64) | self.m[i] as u128;
            q[i] = (cur / k as u128) as u64;
            rem = cur % k as u128;
        }
        (Self { neg: self.neg, m: q }.norm(), rem as u64)
    }
    /// change the limb count (panics if the value does not fit)
    pub fn resize<const M: usize>(&self) -> ZN<M> {
        let mut m = [0u64; M];
        for i in 0..L {
            if i < M {
                m[i] = self.m[i];
            } else {
                assert!(self.m[i] == 0, "Z resize overflow");
            }
        }
        ZN { neg: self.neg, m }
    }
    /// true if the magnitude fits in 128 bits
    pub fn fits_u128(&self) -> bool {
        self.m[2..].iter().all(|&x| x == 0)
    }
    /// bit i of the magnitude
    pub fn bit(&self, i: u32) -> bool {
        let w = (i / 64) as usize;
        w < L && (self.m[w] >> (i % 64)) & 1 == 1
    }
    pub fn to_i128(&self) -> Option<i128> {
        if !self.fits_u128() {
            return None;
        }
        let lo = (self.m[1] as u128) << 64 | self.m[0] as u128;
        if self.neg {
            if lo <= 1u128 << 127 {
                Some((lo as i128).wrapping_neg())
            } else {
                None
            }
        } else if lo < 1u128 << 127 {
            Some(lo as i128)
        } else {
            None
        }
    }
    pub fn to_decimal(&self) -> String {
        let mut digits = vec![];
        let mut x = self.abs();
        if x.is_zero() {
            return "0".into();
        }
        while !x.is_zero() {
            let (q, r) = x.divrem_small(10_000_000_000_000_000_000);
            x = q;
            digits.push(r);
        }
        let mut s = String::new();
        if self.neg {
            s.push('-');
        }
        s.push_str(&format!("{}", digits.pop().unwrap()));
        while let Some(d) = digits.pop() {
            s.push_str(&format!("{:019}", d));
        }
        s
    }
    pub fn to_f64_approx(&self) -> f64 {
        let mut v = 0f64;
        for i in (0..L).rev() {
            v = v * 18446744073709551616.0 + self.m[i] as f64;
        }
        if self.neg {
            -v
        } else {
            v
        }
    }
}

impl<const L: usize> std::fmt::Display for ZN<L> {
    fn fmt(&self, f: &mut std::fmt::Formatter) -> std::fmt::Result {
        if self.neg {
            write!(f, "-")?;
        }
        write!(f, "0x")?;
        let mut started = false;
        for i in (0..L).rev() {
            if started {
                write!(f, "{:016x}", self.m[i])?;
            } else if self.m[i] != 0 || i == 0 {
                write!(f, "{:x}", self.m[i])?;
                started = true;
            }
        }
        Ok(())
    }
}

/// 384-bit integers: enough for every exact arithmetic result on 128-bit operands.
pub type Z = ZN<6>;
/// 4096-bit integers for the text oracles (decimal literals with hundreds of digits).
pub type ZBig = ZN<64>;
