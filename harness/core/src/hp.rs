//! High-precision reference arithmetic for the transcendental functions: signed fixed-point
//! numbers with 256 fractional bits on 1024-bit integers, and ln / log2 / exp / sin / cos / tan
//! computed from their series. Accuracy is about 2^-240 absolute for arguments of moderate size,
//! far below the 2^-128 resolution of the subject. Self-tested against f64 libm.
use crate::z::ZN;
use std::cmp::Ordering;
use std::sync::OnceLock;

pub type HZ = ZN<16>;
pub const HF: u32 = 256;

#[derive(Clone, Copy, Debug, PartialEq, Eq)]
pub struct Hp(pub HZ);

impl Hp {
    pub fn zero() -> Hp {
        Hp(HZ::ZERO)
    }
    pub fn one() -> Hp {
        Hp(HZ::pow2(HF))
    }
    pub fn from_int(n: i64) -> Hp {
        let z = HZ::from_u64(n.unsigned_abs()).shl(HF);
        Hp(if n < 0 { z.neg() } else { z })
    }
    /// value = raw * 2^-frac where raw is a signed magnitude pair
    pub fn from_scaled(neg: bool, mag: u128, frac: u32) -> Hp {
        let z = HZ::from_u128(mag);
        let z = if frac <= HF { z.shl(HF - frac) } else { z.shr_floor(frac - HF) };
        Hp(if neg { z.neg() } else { z })
    }
    /// from a 384-bit integer in units of 2^-frac
    pub fn from_z(z: &crate::z::Z, frac: u32) -> Hp {
        let h: HZ = z.resize::<16>();
        Hp(if frac <= HF { h.shl(HF - frac) } else { h.shr_floor(frac - HF) })
    }
    pub fn is_neg(&self) -> bool {
        self.0.is_neg()
    }
    pub fn is_zero(&self) -> bool {
        self.0.is_zero()
    }
    pub fn neg(self) -> Hp {
        Hp(self.0.neg())
    }
    pub fn abs(self) -> Hp {
        Hp(self.0.abs())
    }
    pub fn add(self, o: Hp) -> Hp {
        Hp(self.0.add(o.0))
    }
    pub fn sub(self, o: Hp) -> Hp {
        Hp(self.0.sub(o.0))
    }
    pub fn mul(self, o: Hp) -> Hp {
        Hp(self.0.mul(o.0).shr_floor(HF))
    }
    pub fn div(self, o: Hp) -> Hp {
        Hp(self.0.shl(HF).divrem_trunc(o.0).0)
    }
    pub fn mul_small(self, k: u64) -> Hp {
        Hp(self.0.mul_small(k))
    }
    pub fn div_small(self, k: u64) -> Hp {
        Hp(self.0.divrem_small(k).0)
    }
    pub fn shl(self, n: u32) -> Hp {
        Hp(self.0.shl(n))
    }
    pub fn shr(self, n: u32) -> Hp {
        Hp(self.0.shr_floor(n))
    }
    pub fn cmp(&self, o: &Hp) -> Ordering {
        self.0.cmp(&o.0)
    }
    pub fn lt(&self, o: &Hp) -> bool {
        self.cmp(o) == Ordering::Less
    }
    pub fn le(&self, o: &Hp) -> bool {
        self.cmp(o) != Ordering::Greater
    }
    pub fn to_f64(&self) -> f64 {
        // top 64 significant bits
        let b = self.0.bits();
        if b == 0 {
            return 0.0;
        }
        let sh = b.saturating_sub(64);
        let top = self.0.abs().shr_floor(sh).low128() as u64;
        let v = top as f64 * 2f64.powi(sh as i32 - HF as i32);
        if self.is_neg() {
            -v
        } else {
            v
        }
    }
    /// floor(self) as i64 (panics if it does not fit)
    pub fn floor_i64(&self) -> i64 {
        let f = self.0.shr_floor(HF);
        f.to_i128().expect("Hp floor too large") as i64
    }
    /// |self| < 2^-k ?
    fn tiny(&self, k: u32) -> bool {
        self.0.bits() + k <= HF
    }
}

fn atanh_series(t: Hp) -> Hp {
    // t + t^3/3 + t^5/5 + ...   (|t| <= 1/3)
    let t2 = t.mul(t);
    let mut pw = t;
    let mut sum = t;
    let mut k = 3u64;
    loop {
        pw = pw.mul(t2);
        if pw.tiny(HF - 2) {
            break;
        }
        sum = sum.add(pw.div_small(k));
        k += 2;
    }
    sum
}

fn atan_inv(n: u64) -> Hp {
    // atan(1/n) = 1/n - 1/(3 n^3) + ...
    let mut pw = Hp::one().div_small(n);
    let mut sum = pw;
    let mut k = 3u64;
    let mut sign = false;
    loop {
        pw = pw.div_small(n * n);
        if pw.is_zero() {
            break;
        }
        let term = pw.div_small(k);
        sum = if sign { sum.add(term) } else { sum.sub(term) };
        sign = !sign;
        k += 2;
    }
    sum
}

pub fn ln2() -> Hp {
    static C: OnceLock<Hp> = OnceLock::new();
    // ln 2 = 2 atanh(1/3)
    *C.get_or_init(|| atanh_series(Hp::one().div_small(3)).shl(1))
}
pub fn inv_ln2() -> Hp {
    static C: OnceLock<Hp> = OnceLock::new();
    *C.get_or_init(|| Hp::one().div(ln2()))
}
pub fn pi() -> Hp {
    static C: OnceLock<Hp> = OnceLock::new();
    // Machin: pi/4 = 4 atan(1/5) - atan(1/239)
    *C.get_or_init(|| atan_inv(5).shl(2).sub(atan_inv(239)).shl(2))
}

/// natural logarithm of x > 0
pub fn ln(x: Hp) -> Hp {
    assert!(!x.is_neg() && !x.is_zero());
    // x = m * 2^e with m in [1, 2)
    let e = x.0.bits() as i32 - 1 - HF as i32;
    let m = if e >= 0 { x.shr(e as u32) } else { x.shl((-e) as u32) };
    let t = m.sub(Hp::one()).div(m.add(Hp::one()));
    let lnm = atanh_series(t).shl(1);
    let le = ln2().mul_small(e.unsigned_abs() as u64);
    if e >= 0 {
        lnm.add(le)
    } else {
        lnm.sub(le)
    }
}
pub fn log2(x: Hp) -> Hp {
    assert!(!x.is_neg() && !x.is_zero());
    let e = x.0.bits() as i32 - 1 - HF as i32;
    let m = if e >= 0 { x.shr(e as u32) } else { x.shl((-e) as u32) };
    let t = m.sub(Hp::one()).div(m.add(Hp::one()));
    let l2m = atanh_series(t).shl(1).mul(inv_ln2());
    l2m.add(Hp::from_int(e as i64))
}

/// e^x for |x| <= 400; None if the result is >= 2^500 (cannot happen within that range)
pub fn exp(x: Hp) -> Hp {
    // x = k ln2 + r, 0 <= r < ln2
    let kf = (x.to_f64() / std::f64::consts::LN_2).floor() as i64;
    let mut k = kf;
    let mut r = x.sub(ln2().mul_small(k.unsigned_abs()).pipe(|v| if k < 0 { v.neg() } else { v }));
    while r.is_neg() {
        r = r.add(ln2());
        k -= 1;
    }
    while !r.lt(&ln2()) {
        r = r.sub(ln2());
        k += 1;
    }
    // Taylor
    let mut term = Hp::one();
    let mut sum = Hp::one();
    let mut i = 1u64;
    loop {
        term = term.mul(r).div_small(i);
        if term.is_zero() {
            break;
        }
        sum = sum.add(term);
        i += 1;
    }
    if k >= 0 {
        sum.shl(k as u32)
    } else {
        sum.shr((-k) as u32)
    }
}

trait Pipe: Sized {
    fn pipe<R>(self, f: impl FnOnce(Self) -> R) -> R {
        f(self)
    }
}
impl Pipe for Hp {}

/// (sin x, cos x) for |x| up to about 2^40
pub fn sin_cos(x: Hp) -> (Hp, Hp) {
    let half_pi = pi().shr(1);
    // x = q * pi/2 + r with |r| <= pi/4
    let qf = (x.to_f64() / std::f64::consts::FRAC_PI_2).round() as i64;
    let mut q = qf;
    let mut r = x.sub(half_pi.mul_small(q.unsigned_abs()).pipe(|v| if q < 0 { v.neg() } else { v }));
    let quarter = pi().shr(2);
    while quarter.lt(&r) {
        r = r.sub(half_pi);
        q += 1;
    }
    while r.lt(&quarter.neg()) {
        r = r.add(half_pi);
        q -= 1;
    }
    let r2 = r.mul(r);
    // sin r
    let mut term = r;
    let mut s = r;
    let mut i = 1u64;
    loop {
        term = term.mul(r2).div_small((2 * i) * (2 * i + 1));
        if term.is_zero() {
            break;
        }
        s = if i % 2 == 1 { s.sub(term) } else { s.add(term) };
        i += 1;
    }
    let mut term = Hp::one();
    let mut c = Hp::one();
    let mut i = 1u64;
    loop {
        term = term.mul(r2).div_small((2 * i - 1) * (2 * i));
        if term.is_zero() {
            break;
        }
        c = if i % 2 == 1 { c.sub(term) } else { c.add(term) };
        i += 1;
    }
    match q.rem_euclid(4) {
        0 => (s, c),
        1 => (c, s.neg()),
        2 => (s.neg(), c.neg()),
        _ => (c.neg(), s),
    }
}

/// self-test against f64 libm and identities
pub fn selftest() {
    let close = |a: f64, b: f64| (a - b).abs() <= 4e-15 * b.abs().max(1e-300) + 1e-300;
    assert!(close(pi().to_f64(), std::f64::consts::PI));
    assert!(close(ln2().to_f64(), std::f64::consts::LN_2));
    let mut n = 0;
    for i in 1..4000 {
        let xf = (i as f64) * 0.0371 + 1e-3;
        let x = Hp::from_scaled(false, (xf * (1u64 << 40) as f64) as u128, 40);
        let xf = x.to_f64();
        assert!(close(ln(x).to_f64(), xf.ln()), "ln {}", xf);
        assert!(close(log2(x).to_f64(), xf.log2()), "log2 {}", xf);
        if xf < 80.0 {
            assert!(close(exp(x).to_f64(), xf.exp()), "exp {}", xf);
            assert!(close(exp(x.neg()).to_f64(), (-xf).exp()), "exp -{}", xf);
        }
        let (s, c) = sin_cos(x);
        assert!((s.to_f64() - xf.sin()).abs() < 1e-13 && (c.to_f64() - xf.cos()).abs() < 1e-13, "sincos {}", xf);
        let (s, c) = sin_cos(x.neg());
        assert!((s.to_f64() + xf.sin()).abs() < 1e-13 && (c.to_f64() - xf.cos()).abs() < 1e-13, "sincos -{}", xf);
        // identities at full precision: exp(ln x) = x, sin^2 + cos^2 = 1
        let back = exp(ln(x));
        assert!(back.sub(x).abs().tiny(230 - 8), "exp(ln x) {}", xf);
        let (s, c) = sin_cos(x);
        assert!(s.mul(s).add(c.mul(c)).sub(Hp::one()).abs().tiny(240), "sin^2+cos^2 {}", xf);
        n += 1;
    }
    println!("hp selftest ok ({} points)", n);
}
