//! Literal families shared by the `text` (C08, C09) and `wrap` (C18) drivers: strings around representable
//! values and rounding ties of a layout, integer parts around and far beyond the range, wrap-around integer
//! literals and decimal limb-carry literals. Pure string construction on reference integers; never calls the subject.
use crate::alpha::Tier;
use crate::{mask, Layout, ZN};

pub fn to_radix_string(mut n: ZN<8>, radix: u32) -> String {
    if n.is_zero() {
        return "0".into();
    }
    let mut ds = vec![];
    while !n.is_zero() {
        let (q, r) = n.divrem_small(radix as u64);
        ds.push(std::char::from_digit(r as u32, 16).unwrap());
        n = q;
    }
    ds.iter().rev().collect()
}

/// exact expansion of num / 2^den_bits in the radix (finite): (integer digits, fractional digits)
pub fn expansion(num: u128, extra_half: bool, frac: u32, radix: u32) -> (String, String) {
    // value = (2*num + extra_half) / 2^(frac+1)
    type B = ZN<8>;
    let n = B::from_u128(num).shl(1).add(if extra_half { B::one() } else { B::ZERO });
    let fb = frac + 1;
    let ip = n.shr_floor(fb);
    let mut rem = n.sub(ip.shl(fb));
    let mut fs = String::new();
    while !rem.is_zero() {
        rem = rem.mul_small(radix as u64);
        let d = rem.shr_floor(fb);
        fs.push(std::char::from_digit(d.low128() as u32, 16).unwrap());
        rem = rem.sub(d.shl(fb));
    }
    (to_radix_string(ip, radix), fs)
}

/// strings around representable values and rounding ties of one layout
pub fn tie_strings(l: Layout, tier: Tier) -> Vec<(u32, String)> {
    let w = l.w;
    let top: u128 = if l.signed { 1u128 << (w - 1) } else { mask(w) };
    let mut ks: Vec<u128> = vec![0, 1, 2, 3, 4, 5, 6, 7, 10, 11, top - 1, top.saturating_sub(2), top.saturating_sub(3), top / 2, top / 2 - 1, top / 3, top / 5, top / 10 * 7, top];
    let step = match tier {
        Tier::Quick => (w / 8).max(1),
        Tier::Thorough => (w / 32).max(1),
    };
    let mut sh = 0;
    while sh < w {
        let p = 1u128 << sh;
        ks.push(p - 1);
        ks.push(p);
        ks.push(p + 1);
        sh += step;
    }
    if l.w == 8 {
        ks = (0..=top).collect();
    }
    ks.retain(|&k| k <= top);
    ks.sort();
    ks.dedup();
    let mut out = vec![];
    let radices: &[u32] = &[10, 2, 8, 16];
    for &k in &ks {
        for &radix in radices {
            if radix != 10 && tier == Tier::Quick && l.w > 8 && k > 11 && k < top - 3 && (k & (k - 1)) != 0 {
                continue;
            }
            let mut base: Vec<String> = vec![];
            // the representable value k itself and the tie k + 1/2
            for half in [false, true] {
                let (ip, fp) = expansion(k, half, l.frac, radix);
                let n = fp.len();
                base.push(if n == 0 { ip.clone() } else { format!("{}.{}", ip, fp) });
                if !half {
                    continue;
                }
                let mut cuts: Vec<usize> = (0..n.min(8)).collect();
                cuts.extend(n.saturating_sub(6)..=n);
                cuts.extend([n / 2, 3, 4, 6, 7, 13, 14, 27, 28, 54, 55]);
                cuts.sort();
                cuts.dedup();
                for &p in &cuts {
                    if p > n {
                        continue;
                    }
                    let pre = &fp[..p];
                    base.push(format!("{}.{}", ip, pre));
                    if p > 0 {
                        let d = pre.chars().last().unwrap().to_digit(16).unwrap();
                        let head = &pre[..p - 1];
                        if d + 1 < radix {
                            base.push(format!("{}.{}{}", ip, head, std::char::from_digit(d + 1, 16).unwrap()));
                        }
                        if d > 0 {
                            let dm = std::char::from_digit(d - 1, 16).unwrap();
                            let top_digit = std::char::from_digit(radix - 1, 16).unwrap().to_string();
                            base.push(format!("{}.{}{}", ip, head, dm));
                            base.push(format!("{}.{}{}{}", ip, head, dm, top_digit.repeat(3)));
                            base.push(format!("{}.{}{}{}", ip, head, dm, top_digit.repeat(40)));
                        }
                    }
                }
                // a hair above / below the tie at every total digit count around the parser's
                // fast-path budgets (3/6/13/27/54 decimal digits) and at the next few positions
                let mut totals: Vec<usize> = (n + 1..=n + 9).collect();
                totals.extend([3usize, 4, 6, 7, 13, 14, 26, 27, 28, 53, 54, 55, 56].iter().filter(|&&t| t > n));
                totals.sort();
                totals.dedup();
                let top_digit = std::char::from_digit(radix - 1, 16).unwrap().to_string();
                for &t in &totals {
                    base.push(format!("{}.{}{}1", ip, fp, "0".repeat(t - n - 1)));
                    if n > 0 {
                        // tie - radix^-t : last tie digit decremented, then (radix-1) digits
                        let d = fp.chars().last().unwrap().to_digit(16).unwrap();
                        if d > 0 {
                            base.push(format!("{}.{}{}{}", ip, &fp[..n - 1], std::char::from_digit(d - 1, 16).unwrap(), top_digit.repeat(t - n)));
                        }
                    }
                }
                base.push(format!("{}.{}00001", ip, fp));
                base.push(format!("{}.{}{}1", ip, fp, "0".repeat(60)));
                base.push(format!("{}.{}000", ip, fp));
                base.push(format!("000{}.{}", ip, fp));
            }
            for b in base {
                if l.signed || k == 0 {
                    out.push((radix, format!("-{}", b)));
                }
                out.push((radix, format!("+{}", b)));
                out.push((radix, b));
            }
        }
    }
    // integer parts around and far beyond the range
    for radix in [10u32, 2, 8, 16] {
        let maxi: ZN<8> = if l.int_bits() == 0 { ZN::<8>::ZERO } else { ZN::<8>::pow2(l.int_bits() - l.signed as u32) };
        for z in [maxi, maxi.add(ZN::<8>::one()), maxi.shl(1), maxi.shl(1).add(ZN::<8>::one()), maxi.shl(3), maxi.shl(64), maxi.shl(129).add(ZN::<8>::from_u64(5))] {
            for tail in ["", ".", ".0", ".5", ".4999", ".50001"] {
                let tail = if radix == 2 { tail.replace('5', "1").replace('4', "0").replace('9', "1") } else if radix == 8 { tail.replace('5', "4").replace('9', "7").replace("4999", "3777") } else if radix == 16 { tail.replace('5', "8").replace("4999", "7fff") } else { tail.to_string() };
                let s = format!("{}{}", to_radix_string(z, radix), tail);
                out.push((radix, s.clone()));
                out.push((radix, format!("-{}", s)));
                if !z.is_zero() {
                    let m = z.sub(ZN::<8>::one());
                    out.push((radix, format!("{}{}", to_radix_string(m, radix), tail)));
                    out.push((radix, format!("-{}{}", to_radix_string(m, radix), tail)));
                }
            }
        }
    }
    // limb-carry boundaries of the two-word decimal fraction path (128-bit types with more than 64 fractional
    // bits): the parser splits the first 54 fractional digits into hi (27 digits) and lo (27 digits) and forms
    // hi * 10^27 + lo in two 128-bit words; the low word carries iff lo >= t, t = j * 2^128 mod 10^27, for
    // hi = floor(j * 2^128 / 10^27). Literals with lo = t - 1, t, t + 1, the largest lo, and the shortest
    // (28-digit) literal on either side of the carry, for small, middle and the largest j.
    if l.w == 128 && l.frac > 64 {
        let p27 = ZN::<8>::from_u128(10u128.pow(27));
        let jmax: u128 = ZN::<8>::from_u128(10u128.pow(27)).mul(p27).divrem_trunc(ZN::<8>::pow2(128)).0.low128();
        let mut js: Vec<u128> = vec![1, 2, 3, 7, 1000, 1_000_000_007, jmax / 3, jmax / 2, jmax - 1, jmax];
        if tier == Tier::Thorough {
            js.extend((0..64u32).map(|i| (jmax >> i).max(1)));
            js.extend((4..400u128).map(|i| i * i * i));
        }
        js.sort();
        js.dedup();
        for j in js {
            let (q, t) = ZN::<8>::from_u128(j).mul(ZN::<8>::pow2(128)).divrem_trunc(p27);
            let (hi, t) = (q.low128(), t.low128());
            if t == 0 || hi >= 10u128.pow(27) {
                continue;
            }
            let mut los = vec![t - 1, t, 10u128.pow(27) - 1];
            if t + 1 < 10u128.pow(27) {
                los.push(t + 1);
            }
            for lo in los {
                let body = format!("{:027}{:027}", hi, lo);
                for tail in ["", "5", "000000001"] {
                    out.push((10, format!("0.{}{}", body, tail)));
                    if l.signed {
                        out.push((10, format!("-0.{}{}", body, tail)));
                    }
                }
            }
            // 28 digits: lo = d * 10^26
            let d = (t + 10u128.pow(26) - 1) / 10u128.pow(26);
            for dd in [d.saturating_sub(1), d, 9] {
                if dd <= 9 {
                    out.push((10, format!("0.{:027}{}", hi, dd)));
                }
            }
        }
    }
    // integers that are an in-range value plus a multiple of the modulus of some parsing word: v + M with
    // M = 2^n (n = integer bits and every word width at least as wide) or radix^k (k = a word width or one more:
    // radix^k is a multiple of 2^k, so only the last k digits determine the wrapped value, while the overflow
    // verdict depends on the digits before them)
    {
        let ib = l.int_bits();
        let top: ZN<8> = if ib == 0 { ZN::<8>::ZERO } else { ZN::<8>::pow2(ib - l.signed as u32).sub(ZN::<8>::one()) };
        let mut vs = vec![ZN::<8>::ZERO, ZN::<8>::one(), ZN::<8>::from_u64(5), top];
        if !top.is_zero() {
            vs.push(top.sub(ZN::<8>::one()));
        }
        let words: Vec<u32> = [8u32, 16, 32, 64, 128].into_iter().filter(|w| *w >= ib).collect();
        for radix in [10u32, 2, 8, 16] {
            let mut ms: Vec<ZN<8>> = vec![];
            if ib > 0 {
                ms.push(ZN::<8>::pow2(ib));
            }
            let per_digit = match radix { 2 => 1, 8 => 3, 16 => 4, _ => 4 };
            for &w in &words {
                ms.push(ZN::<8>::pow2(w));
                ms.push(ZN::<8>::pow2(w).mul_small(3));
                for k in [w, w + 1] {
                    if k * per_digit > 440 {
                        continue;
                    }
                    let mut p = ZN::<8>::one();
                    for _ in 0..k {
                        p = p.mul_small(radix as u64);
                    }
                    ms.push(p);
                    ms.push(p.mul_small(7));
                }
            }
            for m in &ms {
                for v in &vs {
                    let z = v.add(*m);
                    for tail in ["", ".5"] {
                        let tail = match radix { 2 => tail.replace('5', "1"), 8 => tail.replace('5', "4"), 16 => tail.replace('5', "8"), _ => tail.to_string() };
                        let s = format!("{}{}", to_radix_string(z, radix), tail);
                        out.push((radix, s.clone()));
                        out.push((radix, format!("-{}", s)));
                    }
                }
            }
        }
    }
    out
}

