//! Report of one driver run (one profile): coverage accounting, violations, known-finding
//! matches, digests. Written as JSON for the `check` script, which merges profiles, applies
//! KNOWN_FINDINGS and writes the evidence file.
use crate::out::{CLASSES, NCLASS};
use std::collections::BTreeMap;
use std::fmt::Write as _;

pub fn jstr(s: &str) -> String {
    let mut o = String::with_capacity(s.len() + 2);
    o.push('"');
    for c in s.chars() {
        match c {
            '"' => o.push_str("\\\""),
            '\\' => o.push_str("\\\\"),
            '\n' => o.push_str("\\n"),
            '\r' => o.push_str("\\r"),
            '\t' => o.push_str("\\t"),
            c if (c as u32) < 0x20 || c == '\u{7f}' => {
                let _ = write!(o, "\\u{:04x}", c as u32);
            }
            c => o.push(c),
        }
    }
    o.push('"');
    o
}

#[derive(Clone, Debug)]
pub struct Violation {
    /// block key, e.g. "I8/F=W checked_div"
    pub key: String,
    /// how it differs: value / flag / unexpected-panic / ...
    pub diff: String,
    /// replay descriptor understood by `<driver> replay`
    pub case: String,
    pub observed: String,
    pub expected: String,
    /// extra explanation (exact result etc.)
    pub note: String,
    /// known-finding class this mismatch belongs to by cause, if any
    pub kf: Option<&'static str>,
}

#[derive(Default, Clone)]
pub struct Tally {
    /// per op: counts per outcome class
    pub counts: Vec<[u64; NCLASS]>,
    /// judged comparisons per op
    pub judged: Vec<u64>,
}
impl Tally {
    pub fn new(nops: usize) -> Tally {
        Tally { counts: vec![[0; NCLASS]; nops], judged: vec![0; nops] }
    }
}

#[derive(Default)]
pub struct Report {
    pub driver: String,
    pub prop: String,
    pub tier: String,
    /// distinct (layout, input tuple) points enumerated
    pub states: u64,
    /// calls on the subject executed
    pub transitions: u64,
    /// calls whose outcome was compared with the reference model
    pub judged: u64,
    /// points with at least one non-zero operand and at least one judged comparison
    pub nontrivial_states: u64,
    /// block key -> class -> count
    pub blocks: BTreeMap<String, BTreeMap<&'static str, u64>>,
    /// number of distinct (layout, op, outcome class) combinations observed
    pub distinct_outcomes: u64,
    pub violations: Vec<Violation>,
    /// (key, diff, kf) -> count
    pub violation_counts: BTreeMap<(String, String, String), u64>,
    pub samples: Vec<String>,
    pub complete_subspaces: Vec<String>,
    pub notes: Vec<String>,
    /// block -> digest (hex) of the ordered (input, outcome) stream
    pub digests: BTreeMap<String, String>,
    /// vacuity guards: name -> count (a zero makes the run fail as vacuous)
    pub guards: BTreeMap<String, u64>,
    /// free-form extra counters
    pub extra: BTreeMap<String, u64>,
    pub layouts: u64,
    pub wall_s: f64,
}

pub const MAX_VIOL_PER_KEY: u64 = 3;

impl Report {
    pub fn new(driver: &str, prop: &str, tier: &str) -> Report {
        Report { driver: driver.into(), prop: prop.into(), tier: tier.into(), ..Default::default() }
    }
    pub fn add_tally(&mut self, layout_class: &str, ops: &[&str], t: &Tally) {
        for (i, op) in ops.iter().enumerate() {
            let mut any = false;
            for c in 0..NCLASS {
                let n = t.counts[i][c];
                if n > 0 {
                    any = true;
                    self.distinct_outcomes += 1;
                    *self.blocks.entry(format!("{} {}", layout_class, op)).or_default().entry(CLASSES[c]).or_default() += n;
                }
            }
            if any {
                *self.blocks.entry(format!("{} {}", layout_class, op)).or_default().entry("judged").or_default() += t.judged[i];
            }
        }
    }
    pub fn violation(&mut self, v: Violation) {
        let k = (v.key.clone(), v.diff.clone(), v.kf.unwrap_or("").to_string());
        let n = self.violation_counts.entry(k).or_default();
        *n += 1;
        if *n <= MAX_VIOL_PER_KEY {
            self.violations.push(v);
        }
    }
    pub fn guard(&mut self, name: &str, n: u64) {
        *self.guards.entry(name.to_string()).or_default() += n;
    }
    pub fn merge(&mut self, o: Report) {
        self.states += o.states;
        self.transitions += o.transitions;
        self.judged += o.judged;
        self.nontrivial_states += o.nontrivial_states;
        self.distinct_outcomes += o.distinct_outcomes;
        self.layouts += o.layouts;
        for (k, m) in o.blocks {
            let e = self.blocks.entry(k).or_default();
            for (c, n) in m {
                *e.entry(c).or_default() += n;
            }
        }
        for v in o.violations {
            let k = (v.key.clone(), v.diff.clone(), v.kf.unwrap_or("").to_string());
            let kept = self.violations.iter().filter(|x| x.key == k.0 && x.diff == k.1 && x.kf.unwrap_or("") == k.2).count() as u64;
            if kept < MAX_VIOL_PER_KEY {
                self.violations.push(v);
            }
        }
        for (k, n) in o.violation_counts {
            *self.violation_counts.entry(k).or_default() += n;
        }
        for s in o.samples {
            if self.samples.len() < 40 {
                self.samples.push(s);
            }
        }
        for (k, d) in o.digests {
            self.digests.insert(k, d);
        }
        for (k, n) in o.guards {
            *self.guards.entry(k).or_default() += n;
        }
        for (k, n) in o.extra {
            *self.extra.entry(k).or_default() += n;
        }
        self.complete_subspaces.extend(o.complete_subspaces);
        self.notes.extend(o.notes);
    }
    pub fn to_json(&self) -> String {
        let mut s = String::new();
        s.push_str("{\n");
        let _ = writeln!(s, " \"driver\": {},", jstr(&self.driver));
        let _ = writeln!(s, " \"prop\": {},", jstr(&self.prop));
        let _ = writeln!(s, " \"tier\": {},", jstr(&self.tier));
        let _ = writeln!(s, " \"profile\": {},", jstr(crate::profile_name()));
        let _ = writeln!(s, " \"layouts\": {},", self.layouts);
        let _ = writeln!(s, " \"states\": {},", self.states);
        let _ = writeln!(s, " \"transitions\": {},", self.transitions);
        let _ = writeln!(s, " \"judged\": {},", self.judged);
        let _ = writeln!(s, " \"nontrivial_states\": {},", self.nontrivial_states);
        let _ = writeln!(s, " \"distinct_outcomes\": {},", self.distinct_outcomes);
        let _ = writeln!(s, " \"wall_s\": {:.3},", self.wall_s);
        s.push_str(" \"blocks\": {");
        let mut first = true;
        for (k, m) in &self.blocks {
            if !first {
                s.push(',');
            }
            first = false;
            let _ = write!(s, "\n  {}: {{", jstr(k));
            let mut f2 = true;
            for (c, n) in m {
                if !f2 {
                    s.push_str(", ");
                }
                f2 = false;
                let _ = write!(s, "{}: {}", jstr(c), n);
            }
            s.push('}');
        }
        s.push_str("\n },\n");
        s.push_str(" \"violations\": [");
        for (i, v) in self.violations.iter().enumerate() {
            if i > 0 {
                s.push(',');
            }
            let _ = write!(
                s,
                "\n  {{\"key\": {}, \"diff\": {}, \"case\": {}, \"observed\": {}, \"expected\": {}, \"note\": {}, \"kf\": {}}}",
                jstr(&v.key),
                jstr(&v.diff),
                jstr(&v.case),
                jstr(&v.observed),
                jstr(&v.expected),
                jstr(&v.note),
                match v.kf {
                    Some(k) => jstr(k),
                    None => "null".into(),
                }
            );
        }
        s.push_str("\n ],\n");
        s.push_str(" \"violation_counts\": [");
        for (i, ((k, d, kf), n)) in self.violation_counts.iter().enumerate() {
            if i > 0 {
                s.push(',');
            }
            let _ = write!(s, "\n  {{\"key\": {}, \"diff\": {}, \"kf\": {}, \"count\": {}}}", jstr(k), jstr(d), if kf.is_empty() { "null".to_string() } else { jstr(kf) }, n);
        }
        s.push_str("\n ],\n");
        let list = |v: &Vec<String>| v.iter().map(|x| jstr(x)).collect::<Vec<_>>().join(", ");
        let _ = writeln!(s, " \"samples\": [{}],", list(&self.samples));
        let _ = writeln!(s, " \"complete_subspaces\": [{}],", list(&self.complete_subspaces));
        let _ = writeln!(s, " \"notes\": [{}],", list(&self.notes));
        let map = |m: &BTreeMap<String, u64>| m.iter().map(|(k, n)| format!("{}: {}", jstr(k), n)).collect::<Vec<_>>().join(", ");
        let _ = writeln!(s, " \"guards\": {{{}}},", map(&self.guards));
        let _ = writeln!(s, " \"extra\": {{{}}},", map(&self.extra));
        let _ = writeln!(s, " \"digests\": {{{}}}", self.digests.iter().map(|(k, d)| format!("{}: {}", jstr(k), jstr(d))).collect::<Vec<_>>().join(", "));
        s.push_str("}\n");
        s
    }
    pub fn write(&self, path: &str) {
        std::fs::write(path, self.to_json()).expect("cannot write report");
    }
}

/// simple command-line access: --key value
pub struct Args {
    pub v: Vec<String>,
}
impl Args {
    pub fn from_env() -> Args {
        Args { v: std::env::args().skip(1).collect() }
    }
    pub fn get(&self, key: &str) -> Option<String> {
        let k = format!("--{}", key);
        self.v.iter().position(|a| *a == k).and_then(|i| self.v.get(i + 1).cloned())
    }
    pub fn has(&self, key: &str) -> bool {
        let k = format!("--{}", key);
        self.v.iter().any(|a| *a == k)
    }
    pub fn cmd(&self) -> &str {
        self.v.first().map(|s| s.as_str()).unwrap_or("")
    }
}
