//! Deterministic parallel map: results are returned in job order, independent of timing.
use std::sync::atomic::{AtomicUsize, Ordering};
use std::sync::Mutex;

pub fn threads() -> usize {
    std::env::var("VERIF_THREADS")
        .ok()
        .and_then(|s| s.parse().ok())
        .unwrap_or_else(|| std::thread::available_parallelism().map(|n| n.get()).unwrap_or(4))
}

pub fn run_jobs<J: Sync, R: Send>(jobs: &[J], f: impl Fn(&J) -> R + Sync) -> Vec<R> {
    let next = AtomicUsize::new(0);
    let results: Mutex<Vec<Option<R>>> = Mutex::new((0..jobs.len()).map(|_| None).collect());
    std::thread::scope(|s| {
        for _ in 0..threads().min(jobs.len().max(1)) {
            s.spawn(|| loop {
                let i = next.fetch_add(1, Ordering::SeqCst);
                if i >= jobs.len() {
                    break;
                }
                let r = f(&jobs[i]);
                results.lock().unwrap()[i] = Some(r);
            });
        }
    });
    results.into_inner().unwrap().into_iter().map(|r| r.expect("job did not finish")).collect()
}

/// install a panic hook that prints nothing (panics of the subject are outcomes, not noise)
pub fn silence_panics() {
    std::panic::set_hook(Box::new(|_| {}));
}

thread_local! {
    static IN_SUBJECT: std::cell::Cell<bool> = std::cell::Cell::new(false);
}

/// Install a panic hook that is silent for panics raised inside `subject(..)` (those are
/// outcomes) and loud for everything else (a bug in the harness: machinery failure).
pub fn install_hook() {
    std::panic::set_hook(Box::new(|info| {
        if !IN_SUBJECT.with(|c| c.get()) {
            eprintln!("HARNESS PANIC (machinery error, not a verdict): {}", info);
        }
    }));
}

/// Run one call on the subject; `None` if it unwound.
#[inline]
pub fn subject<R>(f: impl FnOnce() -> R) -> Option<R> {
    IN_SUBJECT.with(|c| c.set(true));
    let r = std::panic::catch_unwind(std::panic::AssertUnwindSafe(f));
    IN_SUBJECT.with(|c| c.set(false));
    r.ok()
}
