//! Exact results of same-type operations on the mathematical integers (units of 2^-frac).
//! Shared by the `arith` and `wrap` drivers. Never calls the subject.
use crate::lay::Layout;
use crate::z::Z;

/// exact result in raw-bit units; None = division by zero
pub fn exact_bin(l: Layout, base: &str, a: u128, b: u128) -> Option<Z> {
    let za = l.z(a);
    let zb = l.z(b);
    let f = l.frac;
    if zb.is_zero() && !matches!(base, "add" | "sub" | "mul" | "mul_int") {
        return None;
    }
    Some(match base {
        "add" => za.add(zb),
        "sub" => za.sub(zb),
        // product rounded toward minus infinity
        "mul" => za.mul(zb).shr_floor(f),
        // quotient rounded toward zero
        "div" => za.shl(f).divrem_trunc(zb).0,
        "rem" => za.divrem_trunc(zb).1,
        "rem_euclid" => za.divrem_euclid(zb).1,
        "div_euclid" => za.divrem_euclid(zb).0.shl(f),
        // integer right-hand sides: the integer n has the value n * 2^f in raw units
        "mul_int" => za.mul(zb),
        "div_int" => za.divrem_trunc(zb).0,
        "rem_int" => za.divrem_trunc(zb.shl(f)).1,
        "rem_euclid_int" => za.divrem_euclid(zb.shl(f)).1,
        "div_euclid_int" => za.divrem_euclid(zb.shl(f)).0.shl(f),
        _ => panic!("unknown op {}", base),
    })
}

pub fn exact_un(l: Layout, base: &str, a: u128) -> Z {
    let za = l.z(a);
    let f = l.frac;
    let one = Z::pow2(f);
    let fl = za.shr_floor(f);
    let frac_part = za.sub(fl.shl(f));
    let ceil = if frac_part.is_zero() { fl } else { fl.add(Z::one()) };
    let twice = frac_part.shl(1);
    use std::cmp::Ordering::*;
    match base {
        "neg" => za.neg(),
        "abs" => za.abs(),
        "signum" => {
            if za.is_zero() {
                Z::ZERO
            } else if za.is_neg() {
                one.neg()
            } else {
                one
            }
        }
        "ceil" => ceil.shl(f),
        "floor" => fl.shl(f),
        // ties away from zero
        "round" => match twice.cmp(&one) {
            Less => fl,
            Greater => ceil,
            Equal => {
                if za.is_neg() {
                    fl
                } else {
                    ceil
                }
            }
        }
        .shl(f),
        "round_ties_to_even" => match twice.cmp(&one) {
            Less => fl,
            Greater => ceil,
            Equal => {
                if fl.is_odd() {
                    ceil
                } else {
                    fl
                }
            }
        }
        .shl(f),
        "round_to_zero" => if za.is_neg() { ceil } else { fl }.shl(f),
        "int" => fl.shl(f),
        "frac" => frac_part,
        _ => panic!("unknown op {}", base),
    }
}

/// Known-finding class (cause based): `div_euclid` of two fixed-point numbers derives its
/// result from the truncated fixed-point quotient trunc(a*2^f/b); true when that intermediate
/// is not representable in the type.
pub fn div_euclid_truncated_quotient_overflows(l: Layout, a: u128, b: u128) -> bool {
    let za = l.z(a);
    let zb = l.z(b);
    if zb.is_zero() {
        return false;
    }
    let t = za.shl(l.frac).divrem_trunc(zb).0;
    !l.fits(&t)
}
pub const KF_DIV_EUCLID: &str = "div_euclid-truncated-quotient-overflow";
