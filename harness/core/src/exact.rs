//! Exact results of same-type operations on the mathematical integers (units of 2^-frac).
//! Shared by the `arith` and `wrap` drivers. Never calls the subject.
use crate::lay::Layout;
use crate::z::Z;

/// exact result in raw-bit units; None = division by zero
pub fn exact_bin(l: Layout, base: &str, a: u128, b: u128) -> Option<Z> {
    let za = l.z(a);
    let zb = l.z(b);
    let f = l.frac;
    if zb.is_zero() && !matches!(base, "add" | "sub" | "mul" | "mul_int") {
        return None;
    }
    Some(match base {
        "add" => za.add(zb),
        "sub" => za.sub(zb),
        // product rounded toward minus infinity
        "mul" => za.mul(zb).shr_floor(f),
        // quotient rounded toward zero
        "div" => za.shl(f).divrem_trunc(zb).0,
        "rem" => za.divrem_trunc(zb).1,
        "rem_euclid" => za.divrem_euclid(zb).1,
        "div_euclid" => za.divrem_euclid(zb).0.shl(f),
        // integer right-hand sides: the integer n has the value n * 2^f in raw units
        "mul_int" => za.mul(zb),
        "div_int" => za.divrem_trunc(zb).0,
        "rem_int" => za.divrem_trunc(zb.shl(f)).1,
        "rem_euclid_int" => za.divrem_euclid(zb.shl(f)).1,
        "div_euclid_int" => za.divrem_euclid(zb.shl(f)).0.shl(f),
        _ => panic!("unknown op {}", base),
    })
}

pub fn exact_un(l: Layout, base: &str, a: u128) -> Z {
    let za = l.z(a);
    let f = l.frac;
    let one = Z::pow2(f);
    let fl = za.shr_floor(f);
    let frac_part = za.sub(fl.shl(f));
    let ceil = if frac_part.is_zero() { fl } else { fl.add(Z::one()) };
    let twice = frac_part.shl(1);
    use std::cmp::Ordering::*;
    match base {
        "neg" => za.neg(),
        "abs" => za.abs(),
        "signum" => {
            if za.is_zero() {
                Z::ZERO
            } else if za.is_neg() {
                one.neg()
            } else {
                one
            }
        }
        "ceil" => ceil.shl(f),
        "floor" => fl.shl(f),
        // ties away from zero
        "round" => match twice.cmp(&one) {
            Less => fl,
            Greater => ceil,
            Equal => {
                if za.is_neg() {
                    fl
                } else {
                    ceil
                }
            }
        }
        .shl(f),
        "round_ties_to_even" => match twice.cmp(&one) {
            Less => fl,
            Greater => ceil,
            Equal => {
                if fl.is_odd() {
                    ceil
                } else {
                    fl
                }
            }
        }
        .shl(f),
        "round_to_zero" => if za.is_neg() { ceil } else { fl }.shl(f),
        "int" => fl.shl(f),
        "frac" => frac_part,
        _ => panic!("unknown op {}", base),
    }
}

/// Known-finding class (cause based): `div_euclid` of two fixed-point numbers derives its
/// result from the truncated fixed-point quotient trunc(a*2^f/b); true when that intermediate
/// is not representable in the type.
pub fn div_euclid_truncated_quotient_overflows(l: Layout, a: u128, b: u128) -> bool {
    let za = l.z(a);
    let zb = l.z(b);
    if zb.is_zero() {
        return false;
    }
    let t = za.shl(l.frac).divrem_trunc(zb).0;
    !l.fits(&t)
}
pub const KF_DIV_EUCLID: &str = "div_euclid-truncated-quotient-overflow";

/// The behaviour the pinned tree documents for `div_euclid` inside the cause region of the known
/// finding (truncated fixed-point quotient not representable): quotient = round_to_zero(wrap(t)),
/// adjusted by the wrapped unit when the remainder is negative. Returns (wrapped value, flag).
/// A mismatch is attributed to the known finding only if the observed outcome is exactly this one;
/// anything else inside the region (other than the exact result) is a different failure.
pub fn div_euclid_legacy(l: Layout, a: u128, b: u128) -> (u128, bool) {
    let za = l.z(a);
    let zb = l.z(b);
    let t = za.shl(l.frac).divrem_trunc(zb).0;
    let mut flag = !l.fits(&t);
    let q0 = l.wrap(&t);
    let mut q = l.wrap(&exact_un(l, "round_to_zero", q0));
    let rem = za.divrem_trunc(zb).1;
    if l.signed && rem.is_neg() {
        let unit = if zb.is_neg() { Z::pow2(l.frac) } else { Z::pow2(l.frac).neg() };
        let o1 = !l.fits(&unit);
        let sum = l.z(q).add(l.z(l.wrap(&unit)));
        let o2 = !l.fits(&sum);
        q = l.wrap(&sum);
        flag = flag | o1 | o2;
    }
    (q, flag)
}

/// expected *legacy* outcome of one div_euclid form inside the known-finding region
/// form: 0 checked, 1 saturating, 2 wrapping, 3 overflowing, 4 plain (None = panic under debug assertions)
pub fn div_euclid_legacy_outcome(l: Layout, form: usize, a: u128, b: u128, checked_profile: bool) -> crate::Out {
    use crate::Out;
    let (q, flag) = div_euclid_legacy(l, a, b);
    match form {
        0 => Out::O(None),
        1 => {
            let pos = |raw: u128| !l.is_neg(raw) && raw & crate::mask(l.w) != 0;
            Out::V(if pos(a) == pos(b) { l.max_raw() } else { l.min_raw() })
        }
        2 => Out::V(q),
        3 => Out::P(q, flag),
        _ => {
            if checked_profile {
                Out::Panic
            } else {
                Out::V(q)
            }
        }
    }
}
