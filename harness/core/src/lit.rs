//! Reference model of the literal grammar with exact rational rounding (shared by the `text`
//! and `wrap` drivers). Never calls the subject.
use crate::{mask, Layout, Out, ZN};

/// digit value of a byte in the given radix
fn digit(b: u8, radix: u32) -> Option<u8> {
    let v = match b {
        b'0'..=b'9' => b - b'0',
        b'a'..=b'f' => b - b'a' + 10,
        b'A'..=b'F' => b - b'A' + 10,
        _ => return None,
    };
    if (v as u32) < radix {
        Some(v)
    } else {
        None
    }
}

pub struct Lit {
    pub neg: bool,
    /// all digits, integer part first
    pub digits: Vec<u8>,
    /// number of fractional digits
    pub nfrac: usize,
}

/// grammar: [+-]? digit* ( '.' digit* )?  with at least one digit
pub fn lex(s: &str, radix: u32) -> Option<Lit> {
    let b = s.as_bytes();
    let mut i = 0;
    let mut neg = false;
    if i < b.len() && (b[i] == b'+' || b[i] == b'-') {
        neg = b[i] == b'-';
        i += 1;
    }
    let mut digits = vec![];
    let mut nfrac = 0;
    let mut seen_point = false;
    while i < b.len() {
        if b[i] == b'.' {
            if seen_point {
                return None;
            }
            seen_point = true;
        } else {
            let d = digit(b[i], radix)?;
            digits.push(d);
            if seen_point {
                nfrac += 1;
            }
        }
        i += 1;
    }
    if digits.is_empty() {
        return None;
    }
    Some(Lit { neg, digits, nfrac })
}

/// floor(F * 2^(frac+1)) and sticky for the fraction F = 0.d1 d2 ... given by its digits
fn frac_scaled<const L: usize>(fd: &[u8], radix: u32, frac: u32) -> (ZN<L>, bool) {
    let mut n = ZN::<L>::ZERO;
    for &d in fd {
        n = n.mul_small(radix as u64).add(ZN::<L>::from_u64(d as u64));
    }
    let mut t = n.shl(frac + 1);
    let mut sticky = false;
    let mut left = fd.len();
    let (chunk_digits, chunk) = {
        let mut k = 0usize;
        let mut p = 1u64;
        while p <= (1u64 << 62) / radix as u64 {
            p *= radix as u64;
            k += 1;
        }
        (k, p)
    };
    while left > 0 {
        let (k, p) = if left >= chunk_digits { (chunk_digits, chunk) } else { (left, (radix as u64).pow(left as u32)) };
        let (q, r) = t.divrem_small(p);
        if r != 0 {
            sticky = true;
        }
        t = q;
        left -= k;
    }
    (t, sticky)
}

const MAX_FRAC_DIGITS: usize = 900;

/// Rounded magnitude round_half_even(|literal| * 2^frac): (value modulo 2^128, value >= 2^128)
fn rounded_mag(lit: &Lit, radix: u32, frac: u32) -> (u128, bool) {
    let nint = lit.digits.len() - lit.nfrac;
    let (id, fd_all) = lit.digits.split_at(nint);
    // fraction: strip trailing zeros; beyond MAX_FRAC_DIGITS only "is there a non-zero digit" matters,
    // provided the kept prefix does not end in a long run of (radix-1) digits (never generated here)
    let mut fd = fd_all;
    while let Some((&0, rest)) = fd.split_last() {
        fd = rest;
    }
    let mut extra_sticky = false;
    if fd.len() > MAX_FRAC_DIGITS {
        extra_sticky = fd[MAX_FRAC_DIGITS..].iter().any(|&d| d != 0);
        fd = &fd[..MAX_FRAC_DIGITS];
        // (for power-of-two radices truncation can never carry into the kept bits)
        assert!(radix != 10 || !fd[MAX_FRAC_DIGITS - 60..].iter().all(|&d| d == 9), "text oracle: truncated decimal fraction ends in a run of nines");
    }
    let (t, sticky) = if (fd.len() as f64 * 4.0) as u32 + frac + 8 <= 500 { let (t, s) = frac_scaled::<8>(fd, radix, frac); (t.resize::<64>(), s) } else { frac_scaled::<64>(fd, radix, frac) };
    let sticky = sticky || extra_sticky;
    let half = t.is_odd();
    let base = t.shr_floor(1); // floor(F * 2^frac) < 2^frac
    // integer part modulo 2^128 (wrapping), with overflow tracking
    let mut acc: u128 = 0;
    let mut big = false;
    for &d in id {
        let (a, o1) = acc.overflowing_mul(radix as u128);
        let (a, o2) = a.overflowing_add(d as u128);
        big |= o1 | o2;
        acc = a;
    }
    let int_odd = acc & 1 == 1;
    // I * 2^frac modulo 2^128
    let (shifted, lost) = if frac >= 128 { (0u128, acc != 0) } else { (acc << frac, frac > 0 && (acc >> (128 - frac)) != 0) };
    big |= lost;
    let base128 = base.low128();
    let base_big = !base.fits_u128(); // only when frac = 128 and F*2^128 rounds ... base < 2^128 always
    assert!(!base_big);
    let parity_odd = if frac == 0 { int_odd } else { base128 & 1 == 1 };
    let up = half && (sticky || parity_odd);
    let (m1, o1) = shifted.overflowing_add(base128);
    let (m2, o2) = m1.overflowing_add(up as u128);
    (m2, big | o1 | o2)
}

/// Expected outcome of parsing. form: 0 plain, 1 saturating, 2 wrapping, 3 overflowing.
/// Errors are encoded as E(0) = overflow, E(1) = any other error.
pub fn expect_parse(l: Layout, radix: u32, form: usize, s: &str) -> Out {
    let Some(lit) = lex(s, radix) else { return Out::E(1) };
    let (m, huge) = rounded_mag(&lit, radix, l.frac);
    // signed result S = +-m (m possibly reduced modulo 2^128 with huge = true)
    let w = l.w;
    let neg = lit.neg && (m != 0 || huge);
    let fits = if huge {
        false
    } else if l.signed {
        if neg {
            m <= 1u128 << (w - 1)
        } else {
            m < 1u128 << (w - 1)
        }
    } else if neg {
        false
    } else {
        w == 128 || m >> w == 0
    };
    let wrapped = (if neg { m.wrapping_neg() } else { m }) & mask(w);
    match form {
        0 => {
            if fits {
                Out::V(wrapped)
            } else {
                Out::E(0)
            }
        }
        1 => Out::V(if fits {
            wrapped
        } else if lit.neg {
            l.min_raw()
        } else {
            l.max_raw()
        }),
        2 => Out::V(wrapped),
        _ => Out::P(wrapped, !fits),
    }
}

