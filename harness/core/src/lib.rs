//! Shared machinery of the substrate-fixed exploration harness: reference integers,
//! layouts, input alphabets, outcome encoding, reports.
pub mod typelist;
pub mod z;
pub mod lay;
pub mod alpha;
pub mod out;
pub mod report;
pub mod par;
pub mod ieee;
pub mod exact;
pub mod lit;
pub mod litfam;
pub mod hp;

pub use lay::{mask, Lay, Layout};
pub use out::Out;
pub use z::{ZBig, Z, ZN};

/// true when this binary was built with debug assertions (the "checked" profile)
pub const CHECKED_PROFILE: bool = cfg!(debug_assertions);
pub fn profile_name() -> &'static str {
    if CHECKED_PROFILE {
        "checked"
    } else {
        "unchecked"
    }
}
