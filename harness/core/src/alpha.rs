//! Input alphabets. Every domain is a finite set written down here and enumerated in a fixed
//! order (simplest first); nothing is sampled.
use crate::lay::{mask, Layout};
use std::collections::HashSet;

#[derive(Clone, Copy, Debug, PartialEq, Eq)]
pub enum Tier {
    Quick,
    Thorough,
}
impl Tier {
    pub fn parse(s: &str) -> Tier {
        match s {
            "quick" => Tier::Quick,
            "thorough" => Tier::Thorough,
            _ => panic!("unknown tier {}", s),
        }
    }
    pub fn name(&self) -> &'static str {
        match self {
            Tier::Quick => "quick",
            Tier::Thorough => "thorough",
        }
    }
}

struct Acc {
    m: u128,
    v: Vec<u128>,
    seen: HashSet<u128>,
}
impl Acc {
    fn new(w: u32) -> Acc {
        Acc { m: mask(w), v: vec![], seen: HashSet::new() }
    }
    fn push(&mut self, x: u128) {
        let x = x & self.m;
        if self.seen.insert(x) {
            self.v.push(x);
        }
    }
    /// x and -x
    fn pm(&mut self, x: u128) {
        self.push(x);
        self.push(x.wrapping_neg());
    }
}

/// every value of the width
pub fn all_values(w: u32) -> Vec<u128> {
    assert!(w <= 16);
    (0..(1u128 << w)).collect()
}

/// Step between the exponents k used for the 2^k families: 1 in the thorough tier.
fn kstep(w: u32, tier: Tier) -> usize {
    match tier {
        Tier::Thorough => 1,
        Tier::Quick => (w / 16).max(1) as usize,
    }
}

/// The boundary alphabet B(w, frac): one family of values per shortcut visible in the code.
pub fn boundary(l: Layout, tier: Tier) -> Vec<u128> {
    let w = l.w;
    let m = mask(w);
    let mut a = Acc::new(w);
    // small constants
    for c in [0u128, 1, 2, 3, 5, 7, 10, 100] {
        a.pm(c);
    }
    // extremes of the signed and unsigned interpretation
    a.push(1u128 << (w - 1));
    a.push((1u128 << (w - 1)) + 1);
    a.push((1u128 << (w - 1)) - 1);
    a.push((1u128 << (w - 1)) - 2);
    a.push(m);
    a.push(m - 1);
    // layout-relative values: k*one +- ulp, one half +- ulp
    if l.frac < w {
        let one = 1u128 << l.frac;
        for k in [1u128, 2, 3] {
            for d in [0u128, 1, m] {
                a.pm(one.wrapping_mul(k).wrapping_add(d));
            }
        }
    }
    if l.frac >= 1 {
        let half = 1u128 << (l.frac - 1);
        for d in [0u128, 1, m] {
            a.pm(half.wrapping_add(d));
        }
        a.pm(half.wrapping_mul(3));
    }
    // powers of two and their neighbours (leading-zero / normalisation thresholds)
    let step = kstep(w, tier);
    let mut ks: Vec<u32> = (0..w).step_by(step).collect();
    for k in [w / 2 - 1, w / 2, w / 2 + 1, w - 2, w - 1] {
        if !ks.contains(&k) {
            ks.push(k);
        }
    }
    for &k in &ks {
        let p = 1u128 << k;
        for d in [0u128, 1, m] {
            a.pm(p.wrapping_add(d));
        }
    }
    // limb combinations (schoolbook columns, carries of either sign, hi/lo splits,
    // quotient-digit estimates off by two)
    if w >= 32 {
        let hw = w / 2;
        let hm = mask(hw);
        let limbs: [u128; 6] = [0, 1, hm >> 1, (hm >> 1) + 1, hm, hm - 1];
        for &h in &limbs {
            for &lo in &limbs {
                a.push((h << hw) | lo);
            }
        }
        if w == 128 && tier == Tier::Thorough {
            // 32-bit sub-limbs inside the 64-bit halves
            let q: [u128; 4] = [0, 1, 0x7fff_ffff, 0xffff_ffff];
            for &x3 in &q {
                for &x2 in &q {
                    for &x1 in &q {
                        a.push((x3 << 96) | (x2 << 64) | (x1 << 32) | 0xffff_ffff);
                        a.push((x3 << 96) | (x2 << 64) | (x1 << 32) | 1);
                    }
                }
            }
        }
    }
    // irregular patterns
    a.push(0x5555_5555_5555_5555_5555_5555_5555_5555);
    a.push(0xaaaa_aaaa_aaaa_aaaa_aaaa_aaaa_aaaa_aaaa);
    a.push(0x0123_4567_89ab_cdef_fedc_ba98_7654_3210);
    a.push(0xdead_beef_cafe_f00d_1234_5678_9abc_def1);
    a.push(0x0123_4567_89ab_cdef_fedc_ba98_7654_3210u128 >> (128 - w));
    a.push(0xdead_beef_cafe_f00d_1234_5678_9abc_def1u128 >> (128 - w));
    // further fixed irregular patterns (a fixed splitmix64 sequence written into the alphabet: the same finite
    // set on every run), full width and right-aligned at a few lengths, so that mid-range magnitudes without
    // any structure are present at every width
    {
        let mut st: u64 = 0x9e37_79b9_7f4a_7c15;
        let mut next = || {
            st = st.wrapping_add(0x9e37_79b9_7f4a_7c15);
            let mut z = st;
            z = (z ^ (z >> 30)).wrapping_mul(0xbf58_476d_1ce4_e5b9);
            z = (z ^ (z >> 27)).wrapping_mul(0x94d0_49bb_1331_11eb);
            z ^ (z >> 31)
        };
        let n = match tier {
            Tier::Quick => 12,
            Tier::Thorough => 64,
        };
        for i in 0..n {
            let x = ((next() as u128) << 64) | next() as u128;
            a.push(x);
            // shorter magnitudes: w/2, w/4 and 3w/4 significant bits
            let sh = [w / 2, w / 4, 3 * w / 4][i % 3];
            a.pm((x & m) >> (w - sh));
        }
    }
    if tier == Tier::Thorough {
        // runs of ones of every length anchored at both ends
        for k in 1..w {
            a.push(mask(k));
            a.push(mask(k) << (w - k));
            a.push((mask(k) << (w - k)) >> 1);
        }
        a.push(0x3333_3333_3333_3333_3333_3333_3333_3333);
        a.push(0x0f0f_0f0f_0f0f_0f0f_0f0f_0f0f_0f0f_0f0f);
        a.push(0x9e37_79b9_7f4a_7c15_f39c_c060_5ced_c835);
    }
    a.v
}

/// Values whose conversion to f32/f64 exercises rounding: runs of 23-26 and 52-55 one-bits at
/// every shift, and their tie patterns.
pub fn float_runs(l: Layout, tier: Tier) -> Vec<u128> {
    let w = l.w;
    let m = mask(w);
    let mut a = Acc::new(w);
    let step = kstep(w, tier);
    for run in [23u32, 24, 25, 26, 52, 53, 54, 55] {
        if run < w {
            for sh in (0..=(w - run)).step_by(step) {
                let base = mask(run) << sh;
                for d in [0u128, 1, m] {
                    a.pm(base.wrapping_add(d));
                }
                let tie = ((1u128 << run) | 1) << sh;
                a.push(tie);
                a.push(tie.wrapping_add(1));
                a.push(tie.wrapping_sub(1));
                a.push(((3u128 << run) | 1) << sh >> 1);
                a.pm(((1u128 << run) | 3) << sh >> 1);
            }
        }
    }
    a.v
}

/// boundary set of fractional-bit counts F*(w)
pub fn frac_star(w: u32) -> Vec<u32> {
    let mut v = vec![0, 1, 2, w / 2 - 1, w / 2, w / 2 + 1, w - 2, w - 1, w];
    v.sort();
    v.dedup();
    v
}

/// f32 alphabet: 2 signs x all 256 exponents x structured mantissas
pub fn f32_alphabet(tier: Tier) -> Vec<u32> {
    let mut mant = vec![0u32, 1, 2, 3, 0x7fffff, 0x7ffffe, 0x400000, 0x400001, 0x3fffff, 0x200000, 0x600000, 0x555555, 0x2aaaaa];
    for k in 0..23 {
        mant.push(1 << k);
        mant.push((1 << k) | 1);
        mant.push((1u32 << k) - 1);
        mant.push(0x7fffff & !((1u32 << k) - 1));
        mant.push(((1 << k) | (1 << (k + 1))) & 0x7fffff);
        mant.push(0x400000 | (1 << k));
        if tier == Tier::Thorough {
            mant.push(0x7fffff & !(1u32 << k));
            mant.push((0x555555 >> k) | (1 << k));
        }
    }
    mant.sort();
    mant.dedup();
    let mut v = vec![];
    for e in 0..256u32 {
        for &m in &mant {
            for s in 0..2u32 {
                v.push(s << 31 | e << 23 | m);
            }
        }
    }
    v
}

/// f64 alphabet: 2 signs x exponents x structured mantissas
pub fn f64_alphabet(tier: Tier) -> Vec<u64> {
    let full = (1u64 << 52) - 1;
    let mut mant = vec![0u64, 1, 2, 3, full, full - 1, 1 << 51, (1 << 51) | 1, (1 << 51) - 1, 0x5555555555555, 0xaaaaaaaaaaaaa];
    for k in 0..52 {
        mant.push(1 << k);
        mant.push((1 << k) | 1);
        mant.push((1u64 << k) - 1);
        mant.push(full & !((1u64 << k) - 1));
        mant.push(((1u64 << k) | (1 << (k + 1))) & full);
        if tier == Tier::Thorough {
            mant.push((1 << 51) | (1 << k));
            mant.push(full & !(1u64 << k));
        }
    }
    mant.sort();
    mant.dedup();
    let mut exps: Vec<u64> = vec![];
    for e in 0..2048u64 {
        let keep = match tier {
            Tier::Thorough => true,
            Tier::Quick => e < 4 || e > 2043 || (e >= 1023 - 140 && e <= 1023 + 140) || e % 64 == 0 || e % 64 == 63,
        };
        if keep {
            exps.push(e);
        }
    }
    let mut v = vec![];
    for &e in &exps {
        for &m in &mant {
            for s in 0..2u64 {
                v.push(s << 63 | e << 52 | m);
            }
        }
    }
    v
}
