//! Exact IEEE-754 binary32/binary64 reference: decode to (sign, m, e) with value m*2^e, and
//! round-to-nearest-even encode of an integer magnitude scaled by 2^-frac. Integer
//! manipulation only (no float arithmetic, no `as` casts between floats and integers).
use crate::z::Z;

#[derive(Clone, Copy, Debug, PartialEq, Eq)]
pub enum Dec {
    Nan,
    Inf { neg: bool },
    /// value = (-1)^neg * m * 2^e
    Fin { neg: bool, m: u64, e: i32 },
}

pub fn dec32(b: u32) -> Dec {
    let neg = b >> 31 == 1;
    let e = (b >> 23 & 0xff) as i32;
    let m = (b & 0x7fffff) as u64;
    if e == 255 {
        return if m != 0 { Dec::Nan } else { Dec::Inf { neg } };
    }
    if e == 0 {
        Dec::Fin { neg, m, e: -149 }
    } else {
        Dec::Fin { neg, m: m | 1 << 23, e: e - 150 }
    }
}

pub fn dec64(b: u64) -> Dec {
    let neg = b >> 63 == 1;
    let e = (b >> 52 & 0x7ff) as i32;
    let m = b & ((1 << 52) - 1);
    if e == 2047 {
        return if m != 0 { Dec::Nan } else { Dec::Inf { neg } };
    }
    if e == 0 {
        Dec::Fin { neg, m, e: -1074 }
    } else {
        Dec::Fin { neg, m: m | 1 << 52, e: e - 1075 }
    }
}

/// round-half-even of (-1)^neg * m * 2^(e+frac) to an integer; `None` when astronomically
/// large (|value| >= 2^200: out of range for every layout, wraps to 0 modulo 2^128)
pub fn float_to_fixed_bits(neg: bool, m: u64, e: i32, frac: u32) -> Option<Z> {
    if m == 0 {
        return Some(Z::ZERO);
    }
    let k = e + frac as i32;
    let mag = if k >= 0 {
        if k > 200 {
            return None;
        }
        Z::from_u128(m as u128).shl(k as u32)
    } else {
        let s = (-k) as u32;
        if s > 70 {
            Z::ZERO
        } else {
            let mm = m as u128;
            let q = mm >> s;
            let rem = mm & ((1u128 << s) - 1);
            let half = 1u128 << (s - 1);
            let up = rem > half || (rem == half && q & 1 == 1);
            Z::from_u128(q + up as u128)
        }
    };
    Some(if neg { mag.neg() } else { mag })
}

/// round-to-nearest-even of mag * 2^-frac to a binary float with `prec` significand bits
/// (including the implicit one) and `ebits` exponent bits; returns the bits without sign
pub fn encode_rne(mag: u128, frac: u32, prec: u32, ebits: u32) -> u64 {
    if mag == 0 {
        return 0;
    }
    let bias = (1i32 << (ebits - 1)) - 1;
    let emin = 1 - bias;
    let emax = bias;
    let msb = 127 - mag.leading_zeros() as i32; // value in [2^(msb-frac), 2^(msb-frac+1))
    let mut e = msb - frac as i32;
    // quantum exponent: result = n * 2^q
    let q = if e < emin { emin - (prec as i32 - 1) } else { e - (prec as i32 - 1) };
    let sh = -(frac as i32) - q; // n = round(mag * 2^sh)
    let n: u128 = if sh >= 0 {
        mag << sh
    } else {
        let s = (-sh) as u32;
        if s >= 128 {
            0
        } else {
            let qv = mag >> s;
            let rem = mag & ((1u128 << s) - 1);
            let half = 1u128 << (s - 1);
            qv + ((rem > half || (rem == half && qv & 1 == 1)) as u128)
        }
    };
    let mut n = n;
    if e < emin {
        // subnormal, or rounds up to the smallest normal
        if n >> (prec - 1) != 0 {
            return 1u64 << (prec - 1);
        }
        return n as u64;
    }
    if n >> prec != 0 {
        n >>= 1;
        e += 1;
    }
    if e > emax {
        return ((1u64 << ebits) - 1) << (prec - 1);
    }
    (((e + bias) as u64) << (prec - 1)) | (n as u64 & ((1u64 << (prec - 1)) - 1))
}

pub fn encode_f32(neg: bool, mag: u128, frac: u32) -> u32 {
    (encode_rne(mag, frac, 24, 8) as u32) | (neg as u32) << 31
}
pub fn encode_f64(neg: bool, mag: u128, frac: u32) -> u64 {
    encode_rne(mag, frac, 53, 11) | (neg as u64) << 63
}
