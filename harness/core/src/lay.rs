//! Layouts (width, fractional bits, signedness) as runtime values, and the `Lay` trait that
//! binds each of the 506 subject types to its layout and to raw `u128` bit patterns.
use crate::z::Z;
use substrate_fixed::traits::Fixed;
use substrate_fixed::types::extra;
use substrate_fixed::*;

#[derive(Clone, Copy, Debug, PartialEq, Eq, PartialOrd, Ord, Hash)]
pub struct Layout {
    pub w: u32,
    pub frac: u32,
    pub signed: bool,
}

pub fn mask(w: u32) -> u128 {
    if w >= 128 {
        !0
    } else {
        (1u128 << w) - 1
    }
}

impl Layout {
    pub const fn new(w: u32, frac: u32, signed: bool) -> Layout {
        Layout { w, frac, signed }
    }
    pub fn name(&self) -> String {
        format!("{}{}F{}", if self.signed { "I" } else { "U" }, self.w - self.frac, self.frac)
    }
    pub fn parse(name: &str) -> Option<Layout> {
        let signed = match name.as_bytes().first()? {
            b'I' => true,
            b'U' => false,
            _ => return None,
        };
        let (i, f) = name[1..].split_once('F')?;
        let (i, f): (u32, u32) = (i.parse().ok()?, f.parse().ok()?);
        let w = i + f;
        if ![8, 16, 32, 64, 128].contains(&w) {
            return None;
        }
        Some(Layout { w, frac: f, signed })
    }
    pub fn int_bits(&self) -> u32 {
        self.w - self.frac
    }
    /// family name such as "I32"
    pub fn family(&self) -> String {
        format!("{}{}", if self.signed { "I" } else { "U" }, self.w)
    }
    /// coarse class used to aggregate statistics: family + position of the binary point
    pub fn class(&self) -> String {
        let c = if self.frac == self.w {
            "F=W"
        } else if self.frac == self.w - 1 {
            "F=W-1"
        } else if self.frac == 0 {
            "F=0"
        } else {
            "mid"
        };
        format!("{}/{}", self.family(), c)
    }
    /// mathematical integer value of the raw bit pattern
    pub fn z(&self, raw: u128) -> Z {
        let raw = raw & mask(self.w);
        if self.signed && (raw >> (self.w - 1)) & 1 == 1 {
            Z::from_u128(raw).sub(Z::pow2(self.w))
        } else {
            Z::from_u128(raw)
        }
    }
    /// the same as a native i128 pair (sign, magnitude) for widths below 128 this is exact in i128
    pub fn is_neg(&self, raw: u128) -> bool {
        self.signed && (raw >> (self.w - 1)) & 1 == 1
    }
    pub fn min(&self) -> Z {
        if self.signed {
            Z::pow2(self.w - 1).neg()
        } else {
            Z::ZERO
        }
    }
    pub fn max(&self) -> Z {
        if self.signed {
            Z::pow2(self.w - 1).sub(Z::one())
        } else {
            Z::pow2(self.w).sub(Z::one())
        }
    }
    pub fn min_raw(&self) -> u128 {
        if self.signed {
            1u128 << (self.w - 1)
        } else {
            0
        }
    }
    pub fn max_raw(&self) -> u128 {
        if self.signed {
            mask(self.w) >> 1
        } else {
            mask(self.w)
        }
    }
    pub fn fits(&self, z: &Z) -> bool {
        self.min().le(z) && z.le(&self.max())
    }
    pub fn wrap(&self, z: &Z) -> u128 {
        z.low128() & mask(self.w)
    }
    pub fn sat(&self, z: &Z) -> u128 {
        if z.lt(&self.min()) {
            self.min_raw()
        } else if self.max().lt(z) {
            self.max_raw()
        } else {
            self.wrap(z)
        }
    }
    /// all 506 layouts in a fixed order
    pub fn all() -> Vec<Layout> {
        let mut v = vec![];
        for signed in [true, false] {
            for w in [8, 16, 32, 64, 128] {
                for frac in 0..=w {
                    v.push(Layout { w, frac, signed });
                }
            }
        }
        v
    }
}

pub trait Lay: Fixed + Copy + std::panic::RefUnwindSafe + std::panic::UnwindSafe + 'static {
    const LAYOUT: Layout;
    fn from_raw(raw: u128) -> Self;
    fn raw(self) -> u128;
    fn bits_from_raw(raw: u128) -> Self::Bits;
    fn raw_from_bits(bits: Self::Bits) -> u128;
    /// The deprecated `wrapping_rem_int` / `overflowing_rem_int` are the only methods whose `Fixed` trait form is a
    /// provided body rather than a forwarder, so generic code never reaches the inherent bodies; these call them.
    fn inherent_wrapping_rem_int(self, rhs: Self::Bits) -> Self;
    fn inherent_overflowing_rem_int(self, rhs: Self::Bits) -> (Self, bool);
    /// [INT_NBITS, FRAC_NBITS, int_nbits(), frac_nbits(), min_value() bits, max_value() bits] through the inherent
    /// items, then the same four functions through the `Fixed` trait
    fn limits() -> [u128; 10];
}

macro_rules! impl_lay {
    ($T:ty, $B:ident, $w:expr, $f:expr, S) => { impl_lay!(@ $T, $B, $w, $f, true); };
    ($T:ty, $B:ident, $w:expr, $f:expr, U) => { impl_lay!(@ $T, $B, $w, $f, false); };
    (@ $T:ty, $B:ident, $w:expr, $f:expr, $s:expr) => {
        impl Lay for $T {
            const LAYOUT: Layout = Layout { w: $w, frac: $f, signed: $s };
            #[inline]
            fn from_raw(raw: u128) -> Self {
                <$T>::from_bits(raw as $B)
            }
            #[inline]
            fn raw(self) -> u128 {
                (self.to_bits() as u128) & mask($w)
            }
            #[inline]
            fn bits_from_raw(raw: u128) -> $B {
                raw as $B
            }
            #[inline]
            fn raw_from_bits(bits: $B) -> u128 {
                (bits as u128) & mask($w)
            }
            #[inline]
            #[allow(deprecated)]
            fn inherent_wrapping_rem_int(self, rhs: $B) -> Self {
                <$T>::wrapping_rem_int(self, rhs)
            }
            #[inline]
            #[allow(deprecated)]
            fn inherent_overflowing_rem_int(self, rhs: $B) -> (Self, bool) {
                <$T>::overflowing_rem_int(self, rhs)
            }
            fn limits() -> [u128; 10] {
                [
                    <$T>::INT_NBITS as u128,
                    <$T>::FRAC_NBITS as u128,
                    <$T>::int_nbits() as u128,
                    <$T>::frac_nbits() as u128,
                    (<$T>::min_value().to_bits() as u128) & mask($w),
                    (<$T>::max_value().to_bits() as u128) & mask($w),
                    <$T as Fixed>::int_nbits() as u128,
                    <$T as Fixed>::frac_nbits() as u128,
                    (<$T as Fixed>::min_value().to_bits() as u128) & mask($w),
                    (<$T as Fixed>::max_value().to_bits() as u128) & mask($w),
                ]
            }
        }
    };
}
crate::for_each_type!(impl_lay);
